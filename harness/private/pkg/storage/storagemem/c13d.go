//go:build verif

package storagemem

import (
	"context"
	"io"

	"github.com/bufbuild/buf/private/pkg/storage"
	"github.com/bufbuild/buf/private/pkg/storage/storagemem/internal"
)

// ---------------------------------------------------------------------------------------------------------
// C13-D: views (Map / chained Map / nested Map / Filter / Filter over Map) of a real memory bucket that holds a
// SENTINEL object outside the view's prefix `pre` and one object inside it. One operation with a fully symbolic
// (hostile) argument through the view: it fails, or it neither returns/visits the sentinel nor changes anything
// of the delegate outside `pre`. Good cases (harmless arguments work) are asserted as well.
// ---------------------------------------------------------------------------------------------------------

const (
	vcSentinelData = "S"
	vcInsideData   = "I"
	vcNewData      = "N"
)

type vcViewState struct {
	delegate *bucket
	pre      string // the view's root inside the delegate
	out      string // sentinel path, not under pre (may be an ancestor or sibling of pre)
	inner    string // path of the inside object as seen through a re-rooting view
	in       string // its full path in the delegate: pre/inner
	kind     int
	rerooted bool // view paths are relative to pre (Map views); false for the bare Filter view
}

const (
	vcViewMap = iota
	vcViewChain
	vcViewNested
	vcViewFilterOverMap
	vcViewFilter
	vcViewKinds
)

func vcSentinelState() *vcViewState {
	pre := vcShapePath(verifParam("PRE"))
	out := vcShapePath(verifParam("OUT"))
	verifAssume(!refCContains(pre, out))
	inner := vcComponent(1)
	in := pre + "/" + inner
	objs := map[string]*internal.ImmutableObject{
		out: internal.NewImmutableObject(out, "", "", []byte(vcSentinelData)),
		in:  internal.NewImmutableObject(in, "", "", []byte(vcInsideData)),
	}
	return &vcViewState{delegate: newBucket(objs), pre: pre, out: out, inner: inner, in: in}
}

// vcSplitPrefix splits pre into two mapper prefixes (outer, inner) with outer/inner == pre.
func vcSplitPrefix(pre string) (string, string) {
	for i := 0; i < len(pre); i++ {
		if pre[i] == '/' {
			return pre[:i], pre[i+1:]
		}
	}
	if verifNondetBool() {
		return pre, "."
	}
	return ".", pre
}

// vcReadView / vcWriteView build the view under test. writable=false restricts to kinds that have a write side.
func (st *vcViewState) view(writable bool) (storage.ReadBucket, storage.WriteBucket) {
	n := vcViewKinds
	if writable {
		n = vcViewFilterOverMap
	}
	st.kind = verifNondetChoice(n)
	st.rerooted = true
	switch st.kind {
	case vcViewMap:
		v := storage.MapReadWriteBucket(st.delegate, storage.MapOnPrefix(st.pre))
		return v, v
	case vcViewChain:
		a, b := vcSplitPrefix(st.pre)
		v := storage.MapReadWriteBucket(st.delegate, storage.MapOnPrefix(a), storage.MapOnPrefix(b))
		return v, v
	case vcViewNested:
		a, b := vcSplitPrefix(st.pre)
		v := storage.MapReadWriteBucket(storage.MapReadWriteBucket(st.delegate, storage.MapOnPrefix(a)), storage.MapOnPrefix(b))
		return v, v
	case vcViewFilterOverMap:
		// a filter that lets everything of the mapped view through except nothing: ext "" never differs for
		// extension-less names; use the containment matcher on the view root instead
		return storage.FilterReadBucket(storage.MapReadBucket(st.delegate, storage.MapOnPrefix(st.pre)), storage.MatchPathEqualOrContained(".")), nil
	default:
		st.rerooted = false
		return storage.FilterReadBucket(st.delegate, storage.MatchPathEqualOrContained(st.pre)), nil
	}
}

// insideName: the name under which the inside object is visible through the view.
func (st *vcViewState) insideName() string {
	if st.rerooted {
		return st.inner
	}
	return st.in
}

// checkOutside: the delegate outside pre is exactly as before: the sentinel is intact and no other key lives
// outside pre.
func (st *vcViewState) checkOutside(where string) {
	obj, ok := st.delegate.pathToImmutableObject[st.out]
	verifAssert(ok, where+": the sentinel outside the view still exists")
	if ok {
		verifAssert(obj.Path() == st.out && string(obj.Data()) == vcSentinelData, where+": the sentinel outside the view is unmodified")
	}
	for key := range st.delegate.pathToImmutableObject {
		verifAssert(key == st.out || refCContains(st.pre, key), where+": no object was created outside the view's prefix")
	}
}

func (st *vcViewState) checkInfo(oi storage.ObjectInfo, where string) {
	// memory objects carry their delegate path as ExternalPath; views keep it
	verifAssert(refCContains(st.pre, oi.ExternalPath()) && oi.ExternalPath() != st.out, where+": the object handed out lies under the view's prefix")
}

// VerifLemma_C13D_ViewGet
func VerifLemma_C13D_ViewGet() {
	ctx := context.Background()
	st := vcSentinelState()
	r, _ := st.view(false)
	s := verifNondetString(verifParam("ARG"))
	verifCover("view and argument")
	roc, err := r.Get(ctx, s)
	key, valid := refCKey(s)
	if valid && key == st.insideName() {
		verifCover("Get inside")
		verifAssert(err == nil, "view Get: the inside object is found under every spelling of its name")
	}
	if err == nil {
		st.checkInfo(roc, "view Get")
		data, rerr := io.ReadAll(roc)
		verifAssert(rerr == nil && string(data) == vcInsideData, "view Get: the content handed out is the inside object's, never the sentinel's")
		verifAssert(valid && key == st.insideName(), "view Get: only the inside object's name finds an object")
	}
	st.checkOutside("view Get")
}

// VerifLemma_C13D_ViewStat
func VerifLemma_C13D_ViewStat() {
	ctx := context.Background()
	st := vcSentinelState()
	r, _ := st.view(false)
	s := verifNondetString(verifParam("ARG"))
	verifCover("view and argument")
	oi, err := r.Stat(ctx, s)
	key, valid := refCKey(s)
	if valid && key == st.insideName() {
		verifCover("Stat inside")
		verifAssert(err == nil, "view Stat: the inside object is found under every spelling of its name")
	}
	if err == nil {
		st.checkInfo(oi, "view Stat")
		verifAssert(valid && key == st.insideName(), "view Stat: only the inside object's name finds an object")
		// (that oi.Path() is the *normalized* argument is a C14 matter, see C14-C.map-view and finding F-C14-1)
	}
	st.checkOutside("view Stat")
}

// VerifLemma_C13D_ViewWalk
func VerifLemma_C13D_ViewWalk() {
	ctx := context.Background()
	st := vcSentinelState()
	r, _ := st.view(false)
	s := verifNondetString(verifParam("ARG"))
	verifCover("view and argument")
	n := 0
	err := r.Walk(ctx, s, func(oi storage.ObjectInfo) error {
		n++
		st.checkInfo(oi, "view Walk")
		verifAssert(oi.Path() == st.insideName(), "view Walk: only the inside object is visited")
		return nil
	})
	key, valid := refCKey(s)
	if !valid {
		verifAssert(err != nil && n == 0, "view Walk: a prefix that is absolute or climbs is an error")
	} else {
		verifAssert(err == nil, "view Walk: a valid prefix succeeds")
		want := 0
		if refCContains(key, st.insideName()) {
			verifCover("Walk visits inside")
			want = 1
		}
		verifAssert(n == want, "view Walk: visits the inside object exactly when it is under the prefix")
	}
	st.checkOutside("view Walk")
}

// VerifLemma_C13D_ViewPut
func VerifLemma_C13D_ViewPut() {
	ctx := context.Background()
	st := vcSentinelState()
	_, w := st.view(true)
	s := verifNondetString(verifParam("ARG"))
	verifCover("view and argument")
	woc, err := w.Put(ctx, s)
	key, valid := refCKey(s)
	if valid && key != "." {
		verifCover("Put valid")
		verifAssert(err == nil, "view Put: a valid relative path is accepted")
	} else {
		verifAssert(err != nil, "view Put: a path that is absolute, climbs or is the root is rejected")
	}
	if err == nil {
		_, werr := woc.Write([]byte(vcNewData))
		verifAssert(werr == nil && woc.Close() == nil, "view Put: write and close succeed")
		obj, ok := st.delegate.pathToImmutableObject[st.pre+"/"+key]
		verifAssert(ok && string(obj.Data()) == vcNewData, "view Put: the object lands at prefix/path in the delegate")
	}
	st.checkOutside("view Put")
}

// VerifLemma_C13D_ViewDelete
func VerifLemma_C13D_ViewDelete() {
	ctx := context.Background()
	st := vcSentinelState()
	_, w := st.view(true)
	s := verifNondetString(verifParam("ARG"))
	verifCover("view and argument")
	err := w.Delete(ctx, s)
	key, valid := refCKey(s)
	_, still := st.delegate.pathToImmutableObject[st.in]
	if valid && key == st.inner {
		verifCover("Delete inside")
		verifAssert(err == nil && !still, "view Delete: the inside object is deleted under every spelling of its name")
	} else {
		verifAssert(err != nil && still, "view Delete: any other argument is an error and deletes nothing")
	}
	st.checkOutside("view Delete")
}

// VerifLemma_C13D_ViewDeleteAll
func VerifLemma_C13D_ViewDeleteAll() {
	ctx := context.Background()
	st := vcSentinelState()
	_, w := st.view(true)
	s := verifNondetString(verifParam("ARG"))
	verifCover("view and argument")
	err := w.DeleteAll(ctx, s)
	key, valid := refCKey(s)
	_, still := st.delegate.pathToImmutableObject[st.in]
	if !valid {
		verifAssert(err != nil && still, "view DeleteAll: a prefix that is absolute or climbs is an error and deletes nothing")
	} else {
		verifAssert(err == nil, "view DeleteAll: a valid prefix succeeds")
		if refCContains(key, st.inner) {
			verifCover("DeleteAll removes inside")
		}
		verifAssert(still == !refCContains(key, st.inner), "view DeleteAll: removes the inside object exactly when it is under the prefix")
	}
	st.checkOutside("view DeleteAll")
}

// VerifLemma_C13D_BarePrefix: a *leaf* memory bucket (no view in front of it): Walk / DeleteAll with a hostile
// prefix. A prefix that is absolute or climbs ("..", "../x", "a/../..", "/") is an error, visits nothing and deletes
// nothing; valid prefixes touch only objects path-wise under them.
// (Added after seeded change C13-r2m1; the same code path, storageutil.ValidatePrefix, guards the disk bucket.)
func VerifLemma_C13D_BarePrefix() {
	ctx := context.Background()
	p := vcShapePath(verifParam("PATH"))
	b := newBucket(map[string]*internal.ImmutableObject{p: internal.NewImmutableObject(p, "", "", []byte(vcInsideData))})
	arg := verifParam("ARG")
	s := verifNondetStringN((arg + 1 - verifNondetChoice(arg+1)) % (arg + 1)) // shortest prefixes first, see storageutil harness
	key, valid := refCKey(s)
	verifCover("state and prefix")
	if verifNondetBool() {
		n := 0
		err := b.Walk(ctx, s, func(oi storage.ObjectInfo) error {
			n++
			verifAssert(oi.Path() == p, "bare Walk: only the stored object can be visited")
			return nil
		})
		if !valid {
			verifCover("bare Walk hostile")
			verifAssert(err != nil && n == 0, "bare Walk: a prefix that is absolute or climbs is an error and visits nothing")
		} else {
			want := 0
			if refCContains(key, p) {
				want = 1
			}
			verifAssert(err == nil && n == want, "bare Walk: a valid prefix visits the object exactly when it is under the prefix")
		}
		_, still := b.pathToImmutableObject[p]
		verifAssert(still && len(b.pathToImmutableObject) == 1, "bare Walk: state unchanged")
		return
	}
	err := b.DeleteAll(ctx, s)
	_, still := b.pathToImmutableObject[p]
	if !valid {
		verifCover("bare DeleteAll hostile")
		verifAssert(err != nil && still, "bare DeleteAll: a prefix that is absolute or climbs is an error and deletes nothing")
	} else {
		verifAssert(err == nil && still == !refCContains(key, p), "bare DeleteAll: a valid prefix deletes the object exactly when it is under the prefix")
	}
	verifAssert(len(b.pathToImmutableObject) <= 1, "bare DeleteAll: nothing is created")
}
