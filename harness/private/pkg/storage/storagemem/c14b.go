//go:build verif

package storagemem

import (
	"context"
	"io"

	"github.com/bufbuild/buf/private/pkg/normalpath"
	"github.com/bufbuild/buf/private/pkg/storage"
	"github.com/bufbuild/buf/private/pkg/storage/storagemem/internal"
)

// ---------------------------------------------------------------------------------------------------------
// C14-B: one operation from an arbitrary valid state of the memory bucket, against a reference map.
//
// State = the bucket's representation invariant: every key of pathToImmutableObject is a normalized, validated,
// non-root path and equals its object's Path(). The pre-state is built directly (newBucket) with 0..2 objects at
// arbitrary such paths (not assumed prefix-free: the memory bucket must be a map even then) and arbitrary contents.
// The operation's argument is an arbitrary byte string. The reference model below uses its own lexical cleaner.
// ---------------------------------------------------------------------------------------------------------

// refCClean: component-stack reference for filepath.Clean on unix (same as the normalpath harness refClean, which
// lemma C14-A.clean-reference checks against Normalize for every string up to 8 bytes).
func refCClean(s string) string {
	rooted := len(s) > 0 && s[0] == '/'
	var starts, ends []int
	i := 0
	for i <= len(s) {
		j := i
		for j < len(s) && s[j] != '/' {
			j++
		}
		if j-i == 0 || (j-i == 1 && s[i] == '.') {
			// skip
		} else if j-i == 2 && s[i] == '.' && s[i+1] == '.' {
			n := len(starts)
			if n > 0 && !(ends[n-1]-starts[n-1] == 2 && s[starts[n-1]] == '.' && s[starts[n-1]+1] == '.') {
				starts, ends = starts[:n-1], ends[:n-1]
			} else if !rooted {
				starts, ends = append(starts, i), append(ends, j)
			}
		} else {
			starts, ends = append(starts, i), append(ends, j)
		}
		i = j + 1
	}
	var out []byte
	if rooted {
		out = append(out, '/')
	}
	for k := range starts {
		if k > 0 {
			out = append(out, '/')
		}
		for x := starts[k]; x < ends[k]; x++ {
			out = append(out, s[x])
		}
	}
	if len(out) == 0 {
		return "."
	}
	return string(out)
}

// refCKey: the model's key for an argument string: (cleaned path, true) if it denotes something inside the
// bucket (relative, not climbing), else ("", false). "." is the root prefix.
func refCKey(s string) (string, bool) {
	c := refCClean(s)
	if c[0] == '/' {
		return "", false
	}
	if len(c) >= 2 && c[0] == '.' && c[1] == '.' && (len(c) == 2 || c[2] == '/') {
		return "", false
	}
	return c, true
}

// refCContains: path-wise prefix relation on normalized validated paths.
func refCContains(v, p string) bool {
	if v == "." {
		return true
	}
	if len(p) == len(v) {
		return p == v
	}
	if len(p) > len(v) {
		return p[:len(v)] == v && p[len(v)] == '/'
	}
	return false
}

// vcComponent: an arbitrary path component of exactly l bytes (any byte but '/', not "." and not "..").
func vcComponent(l int) string {
	s := verifNondetStringN(l)
	for i := 0; i < l; i++ {
		verifAssume(s[i] != '/')
	}
	if l == 1 {
		verifAssume(s[0] != '.')
	}
	if l == 2 {
		verifAssume(s[0] != '.' || s[1] != '.')
	}
	return s
}

// vcShapePath: an arbitrary normalized validated non-root path of at most n (<= 5) bytes: the shape (component
// lengths) is a structural choice, the bytes are symbolic. Lemma C14-B.state-paths checks that these are validated.
func vcShapePath(n int) string {
	var shapes [][3]int
	for l1 := 1; l1 <= n; l1++ {
		shapes = append(shapes, [3]int{l1, 0, 0})
	}
	for l1 := 1; l1+2 <= n; l1++ {
		for l2 := 1; l1+1+l2 <= n; l2++ {
			shapes = append(shapes, [3]int{l1, l2, 0})
		}
	}
	if n >= 5 {
		shapes = append(shapes, [3]int{1, 1, 1})
	}
	sh := shapes[verifNondetChoice(len(shapes))]
	p := vcComponent(sh[0])
	if sh[1] > 0 {
		p = p + "/" + vcComponent(sh[1])
	}
	if sh[2] > 0 {
		p = p + "/" + vcComponent(sh[2])
	}
	return p
}

// refCObj / refCModel: the reference map (at most 3 entries; a slice keeps symbolic keys explicit).
type refCObj struct {
	path    string
	data    string
	present bool
}

type refCModel []refCObj

func (m refCModel) find(key string) int {
	for i := range m {
		if m[i].present && m[i].path == key {
			return i
		}
	}
	return -1
}

// vcMaxObjs: maximum number of objects in a generated state (param CNT).
func vcMaxObjs() int {
	if n := verifParam("CNT"); n > 0 {
		return n
	}
	return 2
}

// vcState builds an arbitrary valid pre-state and its model.
func vcState() (*bucket, refCModel) {
	n := verifParam("PATH")
	var m refCModel
	objs := make(map[string]*internal.ImmutableObject)
	cnt := verifNondetChoice(vcMaxObjs() + 1)
	for i := 0; i < cnt; i++ {
		p := vcShapePath(n)
		var d string
		if i == 0 {
			d = verifNondetString(verifParam("DATA"))
		} else {
			verifAssume(p != m[0].path)
			d = verifNondetStringN(1)
		}
		m = append(m, refCObj{path: p, data: d, present: true})
		objs[p] = internal.NewImmutableObject(p, "", "", []byte(d))
	}
	return newBucket(objs), m
}

// vcCheckState: the bucket's map equals the model, and the representation invariant holds.
func vcCheckState(b *bucket, m refCModel, where string) {
	n := 0
	for i := range m {
		if m[i].present {
			n++
		}
	}
	verifAssert(len(b.pathToImmutableObject) == n, where+": bucket holds exactly as many objects as the model")
	for i := range m {
		if !m[i].present {
			continue
		}
		obj, ok := b.pathToImmutableObject[m[i].path]
		verifAssert(ok, where+": every model object is in the bucket")
		if ok {
			verifAssert(obj.Path() == m[i].path, where+": object path equals its key")
			verifAssert(string(obj.Data()) == m[i].data, where+": object content equals the model's")
		}
	}
	for key := range b.pathToImmutableObject {
		np, err := normalpath.NormalizeAndValidate(key)
		verifAssert(err == nil && np == key && key != ".", where+": every key is a normalized validated non-root path")
	}
}

// VerifLemma_C14B_StatePaths: the state generator yields exactly representation-invariant keys.
func VerifLemma_C14B_StatePaths() {
	p := vcShapePath(verifParam("PATH"))
	verifCover("path")
	np, err := normalpath.NormalizeAndValidate(p)
	verifAssert(err == nil && np == p && p != ".", "generated state paths are normalized validated non-root paths")
	k, ok := refCKey(p)
	verifAssert(ok && k == p, "the model keys them by themselves")
}

// VerifLemma_C14B_Get: Get + Read + Close.
func VerifLemma_C14B_Get() {
	ctx := context.Background()
	b, m := vcState()
	s := verifNondetString(verifParam("ARG"))
	key, valid := refCKey(s)
	verifCover("state and argument")
	roc, err := b.Get(ctx, s)
	if !valid || key == "." {
		verifAssert(err != nil, "Get: invalid or root path is an error")
	} else if i := m.find(key); i < 0 {
		verifAssert(err != nil && storage.IsNotExist(err), "Get: absent path gives a not-exist error")
	} else {
		verifCover("Get present")
		verifAssert(err == nil, "Get: present path succeeds")
		if err != nil {
			return
		}
		verifAssert(roc.Path() == key, "Get: object path is the normalized path")
		data, rerr := io.ReadAll(roc)
		verifAssert(rerr == nil && string(data) == m[i].data, "Get: read returns exactly the model's content")
		verifAssert(roc.Close() == nil, "Get: close succeeds")
	}
	vcCheckState(b, m, "after Get")
}

// VerifLemma_C14B_Stat: Stat.
func VerifLemma_C14B_Stat() {
	ctx := context.Background()
	b, m := vcState()
	s := verifNondetString(verifParam("ARG"))
	key, valid := refCKey(s)
	verifCover("state and argument")
	info, err := b.Stat(ctx, s)
	if !valid || key == "." {
		verifAssert(err != nil, "Stat: invalid or root path is an error")
	} else if i := m.find(key); i < 0 {
		verifAssert(err != nil && storage.IsNotExist(err), "Stat: absent path gives a not-exist error")
	} else {
		verifCover("Stat present")
		verifAssert(err == nil, "Stat: present path succeeds")
		if err != nil {
			return
		}
		verifAssert(info.Path() == key && info.ExternalPath() == key && info.LocalPath() == "", "Stat: object info is the model's")
	}
	vcCheckState(b, m, "after Stat")
}

// VerifLemma_C14B_Walk: Walk(prefix) visits exactly the objects under the path-wise prefix, each once, sorted.
func VerifLemma_C14B_Walk() {
	ctx := context.Background()
	b, m := vcState()
	s := verifNondetString(verifParam("ARG"))
	key, valid := refCKey(s)
	verifCover("state and argument")
	var visited []string
	err := b.Walk(ctx, s, func(oi storage.ObjectInfo) error {
		visited = append(visited, oi.Path())
		return nil
	})
	if !valid {
		verifAssert(err != nil && len(visited) == 0, "Walk: invalid prefix is an error and visits nothing")
		vcCheckState(b, m, "after Walk")
		return
	}
	verifAssert(err == nil, "Walk: valid prefix succeeds")
	want := 0
	for i := range m {
		if refCContains(key, m[i].path) {
			want++
		}
	}
	if want > 0 {
		verifCover("Walk visits")
	}
	verifAssert(len(visited) == want, "Walk: visits as many objects as lie under the path-wise prefix")
	for k := range visited {
		i := m.find(visited[k])
		verifAssert(i >= 0 && refCContains(key, m[i].path), "Walk: every visited object is a model object under the prefix")
		for j := 0; j < k; j++ {
			verifAssert(visited[j] != visited[k], "Walk: no object is visited twice")
		}
	}
	vcCheckState(b, m, "after Walk")
}

// VerifLemma_C14B_Put: Put + 2 Writes + Close: invisible until Close, then exactly model[key] = content.
func VerifLemma_C14B_Put() {
	ctx := context.Background()
	b, m := vcState()
	s := verifNondetString(verifParam("ARG"))
	key, valid := refCKey(s)
	w1 := verifNondetString(verifParam("DATA"))
	w2 := verifNondetStringN(1)
	verifCover("state and argument")
	// storagemem.Put ignores its options (parameter named _), so one option set covers both
	woc, err := b.Put(ctx, s, storage.PutWithAtomic())
	if !valid || key == "." {
		verifAssert(err != nil, "Put: invalid or root path is an error")
		vcCheckState(b, m, "after rejected Put")
		return
	}
	verifAssert(err == nil, "Put: valid path succeeds")
	if err != nil {
		return
	}
	n1, e1 := woc.Write([]byte(w1))
	n2, e2 := woc.Write([]byte(w2))
	verifAssert(e1 == nil && e2 == nil && n1 == len(w1) && n2 == len(w2), "Put: writes succeed in full")
	vcCheckState(b, m, "before Close")
	verifAssert(woc.Close() == nil, "Put: close succeeds")
	if i := m.find(key); i >= 0 {
		verifCover("Put overwrites")
		m[i].data = w1 + w2
	} else {
		verifCover("Put creates")
		m = append(m, refCObj{path: key, data: w1 + w2, present: true})
	}
	vcCheckState(b, m, "after Close")
	// a second Close and a late Write must not change the stored object; the late Write cannot report success
	// (io.Writer: n < len(p) => error). Which error is returned is not pinned.
	_ = woc.Close()
	_, e3 := woc.Write([]byte("x"))
	verifAssert(e3 != nil, "Put: a write after close is not accepted")
	vcCheckState(b, m, "after late write")
}

// VerifLemma_C14B_Delete: Delete.
func VerifLemma_C14B_Delete() {
	ctx := context.Background()
	b, m := vcState()
	s := verifNondetString(verifParam("ARG"))
	key, valid := refCKey(s)
	verifCover("state and argument")
	err := b.Delete(ctx, s)
	if !valid || key == "." {
		verifAssert(err != nil, "Delete: invalid or root path is an error")
	} else if i := m.find(key); i < 0 {
		verifAssert(err != nil && storage.IsNotExist(err), "Delete: absent path gives a not-exist error")
	} else {
		verifCover("Delete present")
		verifAssert(err == nil, "Delete: present path succeeds")
		m[i].present = false
	}
	vcCheckState(b, m, "after Delete")
}

// VerifLemma_C14B_DeleteAll: DeleteAll(prefix) removes exactly the objects under the path-wise prefix.
func VerifLemma_C14B_DeleteAll() {
	ctx := context.Background()
	b, m := vcState()
	s := verifNondetString(verifParam("ARG"))
	key, valid := refCKey(s)
	verifCover("state and argument")
	err := b.DeleteAll(ctx, s)
	if !valid {
		verifAssert(err != nil, "DeleteAll: invalid prefix is an error")
	} else {
		verifAssert(err == nil, "DeleteAll: valid prefix succeeds")
		for i := range m {
			if refCContains(key, m[i].path) {
				verifCover("DeleteAll removes")
				m[i].present = false
			}
		}
	}
	vcCheckState(b, m, "after DeleteAll")
}
