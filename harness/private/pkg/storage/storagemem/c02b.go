//go:build verif

package storagemem

import (
	"context"

	"github.com/bufbuild/buf/private/pkg/storage"
	"github.com/bufbuild/buf/private/pkg/storage/storagemem/internal"
)

// VerifLemma_C02B_MemWalk: the in-memory bucket keeps its objects in a Go map; Walk must nevertheless visit them
// in strictly ascending path order, each exactly once, for every iteration order of that map (explored by the
// engine) - and storage.AllPaths over it gives the same list.
func VerifLemma_C02B_MemWalk() {
	n := verifNondetChoice(verifParam("OBJS") + 1)
	m := make(map[string]*internal.ImmutableObject, n)
	paths := make([]string, n)
	for i := 0; i < n; i++ {
		p := verifNondetStringN(verifNondetChoice(verifParam("N")) + 1)
		for k := 0; k < len(p); k++ {
			c := p[k]
			verifAssume(c >= 'a' && c <= 'z') // normalized, validated single-component paths
		}
		for j := 0; j < i; j++ {
			verifAssume(paths[j] != p)
		}
		paths[i] = p
		m[p] = internal.NewImmutableObject(p, "", "", nil)
	}
	b := newBucket(m)
	var visited []string
	err := b.Walk(context.Background(), "", func(o storage.ObjectInfo) error {
		visited = append(visited, o.Path())
		return nil
	})
	verifCover("walked")
	verifAssert(err == nil, "walk succeeds")
	verifAssert(len(visited) == n, "every object exactly once")
	for i := 0; i < len(visited); i++ {
		if i > 0 {
			verifAssert(visited[i-1] < visited[i], "strictly ascending path order for every map order")
		}
		found := false
		for _, p := range paths {
			if p == visited[i] {
				found = true
			}
		}
		verifAssert(found, "only stored paths are visited")
	}
	all, err := storage.AllPaths(context.Background(), b, "")
	verifAssert(err == nil && len(all) == len(visited), "AllPaths agrees")
	if len(all) == len(visited) {
		for i := range all {
			verifAssert(all[i] == visited[i], "AllPaths gives the walk order")
		}
	}
}
