//go:build verif

package storagemem

import (
	"context"

	"github.com/bufbuild/buf/private/pkg/storage"
	"github.com/bufbuild/buf/private/pkg/storage/storagemem/internal"
)

// VerifLemma_C02B_MemWalk: the in-memory bucket keeps its objects in a Go map; Walk must nevertheless visit them
// each exactly once and in the same order for every iteration order of that map (explored by the engine; two walks
// are compared) - and storage.AllPaths over it is sorted.
func VerifLemma_C02B_MemWalk() {
	n := verifNondetChoice(verifParam("OBJS") + 1)
	m := make(map[string]*internal.ImmutableObject, n)
	paths := make([]string, n)
	for i := 0; i < n; i++ {
		p := verifNondetStringN(verifNondetChoice(verifParam("N")) + 1)
		for k := 0; k < len(p); k++ {
			c := p[k]
			verifAssume(c >= 'a' && c <= 'z') // normalized, validated single-component paths
		}
		for j := 0; j < i; j++ {
			verifAssume(paths[j] != p)
		}
		paths[i] = p
		m[p] = internal.NewImmutableObject(p, "", "", nil)
	}
	b := newBucket(m)
	var visited []string
	err := b.Walk(context.Background(), "", func(o storage.ObjectInfo) error {
		visited = append(visited, o.Path())
		return nil
	})
	verifCover("walked")
	verifAssert(err == nil, "walk succeeds")
	verifAssert(len(visited) == n, "every object exactly once")
	// Walk's order is not documented as sorted; what C02 needs is that it does not depend on the map's iteration
	// order: a second walk (an independent map order in the engine) visits the same sequence.
	var again []string
	err = b.Walk(context.Background(), "", func(o storage.ObjectInfo) error {
		again = append(again, o.Path())
		return nil
	})
	verifAssert(err == nil && len(again) == len(visited), "second walk succeeds")
	if len(again) == len(visited) {
		for i := range visited {
			verifAssert(again[i] == visited[i], "same visiting order for every map iteration order")
		}
	}
	for i := 0; i < len(visited); i++ {
		found := false
		for _, p := range paths {
			if p == visited[i] {
				found = true
			}
		}
		verifAssert(found, "only stored paths are visited")
	}
	all, err := storage.AllPaths(context.Background(), b, "")
	verifAssert(err == nil && len(all) == len(visited), "AllPaths agrees")
	for i := 1; i < len(all); i++ {
		verifAssert(all[i-1] < all[i], "AllPaths is sorted (documented) for every map order")
	}
}
