//go:build verif

package storagemem

import (
	"context"
	"io"

	"github.com/bufbuild/buf/private/pkg/storage"
	"github.com/bufbuild/buf/private/pkg/storage/storagemem/internal"
)

// ---------------------------------------------------------------------------------------------------------
// C14-C: combinators over the memory bucket: each behaves as the reference map transformed the obvious way
// (sub-tree re-rooted / filtered / union / overlay / same map with stripped external paths / copy = union).
// ---------------------------------------------------------------------------------------------------------

// vcStateUnder: 0..2 objects; each is either anywhere (arbitrary path <= PATH bytes) or under pre (pre/x, x a path
// of <= 2 bytes, or <= 3 when SUB=3). No object sits exactly at pre (the view prefix is a directory).
func vcStateUnder(pre string) (*bucket, refCModel) {
	var m refCModel
	objs := make(map[string]*internal.ImmutableObject)
	cnt := verifNondetChoice(vcMaxObjs() + 1)
	for i := 0; i < cnt; i++ {
		var p string
		if verifNondetBool() {
			p = pre + "/" + vcShapePath(verifParam("SUB"))
		} else {
			p = vcShapePath(verifParam("PATH"))
			verifAssume(p != pre)
		}
		if i == 1 {
			verifAssume(p != m[0].path)
		}
		d := verifNondetStringN(1)
		m = append(m, refCObj{path: p, data: d, present: true})
		objs[p] = internal.NewImmutableObject(p, "", "", []byte(d))
	}
	return newBucket(objs), m
}

// refCRel: the view name of full path p under prefix pre ("", false if p is not strictly under pre).
func refCRel(pre, p string) (string, bool) {
	if len(p) > len(pre)+1 && p[:len(pre)] == pre && p[len(pre)] == '/' {
		return p[len(pre)+1:], true
	}
	return "", false
}

// findRel: index of the present model object whose name under pre is key.
func (m refCModel) findRel(pre, key string) int {
	for i := range m {
		if !m[i].present {
			continue
		}
		if rel, ok := refCRel(pre, m[i].path); ok && rel == key {
			return i
		}
	}
	return -1
}

func vcReadAll(roc storage.ReadObjectCloser) string {
	data, err := io.ReadAll(roc)
	verifAssert(err == nil, "reading a handed-out object succeeds")
	verifAssert(roc.Close() == nil, "closing a handed-out object succeeds")
	return string(data)
}

// VerifLemma_C14C_MapViewRead: Get / Stat / Walk through MapReadBucket(b, MapOnPrefix(pre)) == the sub-tree map.
func VerifLemma_C14C_MapViewRead() {
	ctx := context.Background()
	pre := vcShapePath(verifParam("PRE"))
	b, m := vcStateUnder(pre)
	view := storage.MapReadBucket(b, storage.MapOnPrefix(pre))
	s := verifNondetString(verifParam("ARG"))
	key, valid := refCKey(s)
	verifCover("state and argument")
	switch verifNondetChoice(3) {
	case 0:
		roc, err := view.Get(ctx, s)
		if !valid || key == "." {
			verifAssert(err != nil, "map view Get: invalid or root path is an error")
		} else if i := m.findRel(pre, key); i < 0 {
			verifAssert(err != nil && storage.IsNotExist(err), "map view Get: absent path gives a not-exist error")
		} else {
			verifCover("map view Get present")
			verifAssert(err == nil, "map view Get: present path succeeds")
			if err != nil {
				return
			}
			verifAssert(vcReadAll(roc) == m[i].data, "map view Get: content is the model's")
			verifAssert(roc.ExternalPath() == m[i].path, "map view Get: external path is the delegate's")
			if verifKnown("F-C14-1-view-path-echo", s != key) {
				return
			}
			verifAssert(roc.Path() == key, "map view Get: reported path is the normalized path")
		}
	case 1:
		oi, err := view.Stat(ctx, s)
		if !valid || key == "." {
			verifAssert(err != nil, "map view Stat: invalid or root path is an error")
		} else if i := m.findRel(pre, key); i < 0 {
			verifAssert(err != nil && storage.IsNotExist(err), "map view Stat: absent path gives a not-exist error")
		} else {
			verifCover("map view Stat present")
			verifAssert(err == nil, "map view Stat: present path succeeds")
			if err != nil {
				return
			}
			verifAssert(oi.ExternalPath() == m[i].path, "map view Stat: external path is the delegate's")
			if verifKnown("F-C14-1-view-path-echo", s != key) {
				return
			}
			verifAssert(oi.Path() == key, "map view Stat: reported path is the normalized path")
		}
	case 2:
		var visited, external []string
		err := view.Walk(ctx, s, func(oi storage.ObjectInfo) error {
			visited = append(visited, oi.Path())
			external = append(external, oi.ExternalPath())
			return nil
		})
		if !valid {
			verifAssert(err != nil && len(visited) == 0, "map view Walk: invalid prefix is an error")
			break
		}
		verifAssert(err == nil, "map view Walk: valid prefix succeeds")
		want := 0
		for i := range m {
			if rel, ok := refCRel(pre, m[i].path); ok && refCContains(key, rel) {
				want++
			}
		}
		if want > 0 {
			verifCover("map view Walk visits")
		}
		verifAssert(len(visited) == want, "map view Walk: visits as many objects as the sub-tree model has under the prefix")
		for k := range visited {
			i := m.findRel(pre, visited[k])
			verifAssert(i >= 0 && refCContains(key, visited[k]), "map view Walk: every visited name is a sub-tree object under the prefix")
			if i >= 0 {
				verifAssert(external[k] == m[i].path, "map view Walk: external path is the delegate's")
			}
			for j := 0; j < k; j++ {
				verifAssert(visited[j] != visited[k], "map view Walk: no name is visited twice")
			}
		}
	}
	vcCheckState(b, m, "after map view read")
}

// VerifLemma_C14C_MapViewWrite: Put / Delete / DeleteAll through MapWriteBucket(b, MapOnPrefix(pre)).
func VerifLemma_C14C_MapViewWrite() {
	ctx := context.Background()
	pre := vcShapePath(verifParam("PRE"))
	b, m := vcStateUnder(pre)
	view := storage.MapWriteBucket(b, storage.MapOnPrefix(pre))
	s := verifNondetString(verifParam("ARG"))
	key, valid := refCKey(s)
	verifCover("state and argument")
	switch verifNondetChoice(3) {
	case 0:
		// PutWithAtomic: only then is "invisible until Close" part of the documented contract
		woc, err := view.Put(ctx, s, storage.PutWithAtomic())
		if !valid || key == "." {
			verifAssert(err != nil, "map view Put: invalid or root path is an error")
			break
		}
		verifAssert(err == nil, "map view Put: valid path succeeds")
		if err != nil {
			return
		}
		d := verifNondetStringN(1)
		_, werr := woc.Write([]byte(d))
		verifAssert(werr == nil, "map view Put: write succeeds")
		vcCheckState(b, m, "map view Put before Close")
		verifAssert(woc.Close() == nil, "map view Put: close succeeds")
		if i := m.findRel(pre, key); i >= 0 {
			verifCover("map view Put overwrites")
			m[i].data = d
		} else {
			verifCover("map view Put creates")
			m = append(m, refCObj{path: pre + "/" + key, data: d, present: true})
		}
	case 1:
		err := view.Delete(ctx, s)
		if !valid || key == "." {
			verifAssert(err != nil, "map view Delete: invalid or root path is an error")
		} else if i := m.findRel(pre, key); i < 0 {
			verifAssert(err != nil && storage.IsNotExist(err), "map view Delete: absent path gives a not-exist error")
		} else {
			verifCover("map view Delete present")
			verifAssert(err == nil, "map view Delete: present path succeeds")
			m[i].present = false
		}
	case 2:
		err := view.DeleteAll(ctx, s)
		if !valid {
			verifAssert(err != nil, "map view DeleteAll: invalid prefix is an error")
			break
		}
		verifAssert(err == nil, "map view DeleteAll: valid prefix succeeds")
		for i := range m {
			if rel, ok := refCRel(pre, m[i].path); ok && refCContains(key, rel) {
				verifCover("map view DeleteAll removes")
				m[i].present = false
			}
		}
	}
	vcCheckState(b, m, "after map view write")
}

// ---- filters ----

// refCExt: filepath.Ext - the suffix of the last component starting at its last '.'.
func refCExt(p string) string {
	for i := len(p) - 1; i >= 0 && p[i] != '/'; i-- {
		if p[i] == '.' {
			return p[i:]
		}
	}
	return ""
}

// refCBase: last component of a normalized non-root path.
func refCBase(p string) string {
	for i := len(p) - 1; i >= 0; i-- {
		if p[i] == '/' {
			return p[i+1:]
		}
	}
	return p
}

// vcMatcher returns a matcher with symbolic argument and its reference predicate on normalized validated paths.
func vcMatcher() (storage.Matcher, func(string) bool) {
	switch verifNondetChoice(6) {
	case 0:
		ext := verifNondetString(2)
		return storage.MatchPathExt(ext), func(p string) bool { return refCExt(p) == ext }
	case 1:
		q := vcShapePath(verifParam("Q"))
		return storage.MatchPathEqualOrContained(q), func(p string) bool { return refCContains(q, p) }
	case 2:
		q := vcShapePath(verifParam("Q"))
		return storage.MatchPathEqual(q), func(p string) bool { return p == q }
	case 3:
		q := vcShapePath(verifParam("Q"))
		return storage.MatchPathContained(q), func(p string) bool { return p != q && refCContains(q, p) }
	case 4:
		base := vcComponent(1)
		return storage.MatchPathBase(base), func(p string) bool { return refCBase(p) == base }
	default:
		q := vcShapePath(verifParam("Q"))
		ext := verifNondetStringN(2)
		return storage.MatchOr(storage.MatchNot(storage.MatchPathEqualOrContained(q)), storage.MatchAnd(storage.MatchPathExt(ext))),
			func(p string) bool { return !refCContains(q, p) || refCExt(p) == ext }
	}
}

// VerifLemma_C14C_Filter: FilterReadBucket(b, matcher) == the model restricted to the matching paths.
func VerifLemma_C14C_Filter() {
	ctx := context.Background()
	b, m := vcState()
	matcher, pred := vcMatcher()
	view := storage.FilterReadBucket(b, matcher)
	s := verifNondetString(verifParam("ARG"))
	key, valid := refCKey(s)
	verifCover("state, matcher and argument")
	switch verifNondetChoice(3) {
	case 0:
		roc, err := view.Get(ctx, s)
		if !valid || key == "." {
			verifAssert(err != nil, "filter Get: invalid or root path is an error")
		} else if i := m.find(key); i < 0 || !pred(key) {
			verifAssert(err != nil && storage.IsNotExist(err), "filter Get: absent or filtered-out path gives a not-exist error")
		} else {
			verifCover("filter Get present")
			verifAssert(err == nil, "filter Get: matching present path succeeds")
			if err != nil {
				return
			}
			verifAssert(roc.Path() == key && vcReadAll(roc) == m[i].data, "filter Get: object is the model's")
		}
	case 1:
		oi, err := view.Stat(ctx, s)
		if !valid || key == "." {
			verifAssert(err != nil, "filter Stat: invalid or root path is an error")
		} else if i := m.find(key); i < 0 || !pred(key) {
			verifAssert(err != nil && storage.IsNotExist(err), "filter Stat: absent or filtered-out path gives a not-exist error")
		} else {
			verifCover("filter Stat present")
			verifAssert(err == nil && oi.Path() == key, "filter Stat: matching present path succeeds")
		}
	case 2:
		var visited []string
		err := view.Walk(ctx, s, func(oi storage.ObjectInfo) error {
			visited = append(visited, oi.Path())
			return nil
		})
		if !valid {
			verifAssert(err != nil && len(visited) == 0, "filter Walk: invalid prefix is an error")
			break
		}
		verifAssert(err == nil, "filter Walk: valid prefix succeeds")
		want := 0
		for i := range m {
			if refCContains(key, m[i].path) && pred(m[i].path) {
				want++
			}
		}
		if want > 0 {
			verifCover("filter Walk visits")
		}
		verifAssert(len(visited) == want, "filter Walk: visits as many objects as match under the prefix")
		for k := range visited {
			i := m.find(visited[k])
			verifAssert(i >= 0 && refCContains(key, visited[k]) && pred(visited[k]), "filter Walk: every visited object matches and is under the prefix")
			for j := 0; j < k; j++ {
				verifAssert(visited[j] != visited[k], "filter Walk: no object is visited twice")
			}
		}
	}
	vcCheckState(b, m, "after filter read")
}

// ---- union / overlay ----

// vcTwoStates: bucket 1 holds 0..2 objects, bucket 2 holds 0..1 object whose path may equal one of bucket 1's.
// External paths are distinct per bucket ("1:<path>" / "2:<path>") so the source of an object is observable.
func vcTwoStates() (*bucket, refCModel, *bucket, refCModel) {
	return vcTwoStatesTagged("1:", "2:")
}

// vcTwoStatesTagged: as vcTwoStates with the given external-path tags ("" = the external path is the path itself,
// which is also what a memory bucket uses by default).
func vcTwoStatesTagged(tag1, tag2 string) (*bucket, refCModel, *bucket, refCModel) {
	n := verifParam("PATH")
	var m1, m2 refCModel
	o1 := make(map[string]*internal.ImmutableObject)
	o2 := make(map[string]*internal.ImmutableObject)
	cnt := verifNondetChoice(vcMaxObjs() + 1)
	for i := 0; i < cnt; i++ {
		p := vcShapePath(n)
		if i == 1 {
			verifAssume(p != m1[0].path)
		}
		d := verifNondetStringN(1)
		m1 = append(m1, refCObj{path: p, data: d, present: true})
		o1[p] = internal.NewImmutableObject(p, tag1+p, "", []byte(d))
	}
	if verifNondetBool() {
		p := vcShapePath(n)
		d := verifNondetStringN(1)
		m2 = append(m2, refCObj{path: p, data: d, present: true})
		o2[p] = internal.NewImmutableObject(p, tag2+p, "", []byte(d))
	}
	return newBucket(o1), m1, newBucket(o2), m2
}

// VerifLemma_C14C_Multi: MultiReadBucket = disjoint union that REPORTS a path present in both members;
// OverlayReadBucket = union where the first member wins.
func VerifLemma_C14C_Multi() {
	ctx := context.Background()
	// EXT=0: the members' objects carry distinct external paths ("1:<path>" / "2:<path>"), so the source of an object is
	// observable. EXT=1: the external paths say nothing - either both members use the default external path (== path)
	// or both are wrapped in StripReadBucketExternalPaths; two members may then hold DIFFERENT bytes under one path
	// with identical ObjectInfos, and the union must still report the duplicate (added after seeded change C14-m1).
	tag1, tag2 := "1:", "2:"
	strip := false
	if verifParam("EXT") != 0 {
		if verifNondetBool() {
			tag1, tag2 = "", ""
		} else {
			strip = true
		}
	}
	b1, m1, b2, m2 := vcTwoStatesTagged(tag1, tag2)
	var r1, r2 storage.ReadBucket = b1, b2
	exp1, exp2 := tag1, tag2
	if strip {
		r1, r2 = storage.StripReadBucketExternalPaths(b1), storage.StripReadBucketExternalPaths(b2)
		exp1, exp2 = "", ""
	}
	overlay := verifParam("OVERLAY") != 0
	var view storage.ReadBucket
	if overlay {
		view = storage.OverlayReadBucket(r1, r2)
	} else {
		view = storage.MultiReadBucket(r1, r2)
	}
	s := verifNondetString(verifParam("ARG"))
	key, valid := refCKey(s)
	verifCover("states and argument")
	switch verifNondetChoice(3) {
	case 0, 1:
		var oi storage.ObjectInfo
		var err error
		var content string
		isGet := verifNondetBool()
		if isGet {
			var roc storage.ReadObjectCloser
			roc, err = view.Get(ctx, s)
			if err == nil {
				oi = roc
				content = vcReadAll(roc)
			}
		} else {
			oi, err = view.Stat(ctx, s)
		}
		if !valid || key == "." {
			verifAssert(err != nil, "union Get/Stat: invalid or root path is an error")
			break
		}
		i1, i2 := m1.find(key), m2.find(key)
		switch {
		case i1 < 0 && i2 < 0:
			verifAssert(err != nil && storage.IsNotExist(err), "union Get/Stat: path in no member gives a not-exist error")
		case i1 >= 0 && i2 >= 0 && !overlay:
			verifCover("union duplicate")
			verifAssert(err != nil && storage.IsExistsMultipleLocations(err) && !storage.IsNotExist(err), "multi Get/Stat: a path present in two members is reported, not hidden")
		case i1 >= 0:
			verifCover("union from first")
			verifAssert(err == nil, "union Get/Stat: path in the first member succeeds")
			if err == nil {
				verifAssert(oi.Path() == key && oi.ExternalPath() == exp1+key, "union Get/Stat: object comes from the first member")
				if isGet {
					verifAssert(content == m1[i1].data, "union Get: content is the first member's")
				}
			}
		default:
			verifCover("union from second")
			verifAssert(err == nil, "union Get/Stat: path only in the second member succeeds")
			if err == nil {
				verifAssert(oi.Path() == key && oi.ExternalPath() == exp2+key, "union Get/Stat: object comes from the second member")
				if isGet {
					verifAssert(content == m2[i2].data, "union Get: content is the second member's")
				}
			}
		}
	case 2:
		var visited, external []string
		err := view.Walk(ctx, s, func(oi storage.ObjectInfo) error {
			visited = append(visited, oi.Path())
			external = append(external, oi.ExternalPath())
			return nil
		})
		if !valid {
			verifAssert(err != nil && len(visited) == 0, "union Walk: invalid prefix is an error")
			break
		}
		dup := false
		want := 0
		for i := range m1 {
			if refCContains(key, m1[i].path) {
				want++
			}
		}
		for i := range m2 {
			if refCContains(key, m2[i].path) {
				if m1.find(m2[i].path) >= 0 {
					dup = true
				} else {
					want++
				}
			}
		}
		if dup && !overlay {
			verifCover("union Walk duplicate")
			verifAssert(err != nil && storage.IsExistsMultipleLocations(err), "multi Walk: a path present in two members under the prefix is reported")
			break
		}
		verifAssert(err == nil, "union Walk: succeeds without duplicates (or with overlay)")
		verifAssert(len(visited) == want, "union Walk: visits the union under the prefix, each path once")
		for k := range visited {
			i1, i2 := m1.find(visited[k]), m2.find(visited[k])
			verifAssert((i1 >= 0 || i2 >= 0) && refCContains(key, visited[k]), "union Walk: every visited path is a member object under the prefix")
			if i1 >= 0 {
				verifAssert(external[k] == exp1+visited[k], "union Walk: the first member's object is the one visited")
			}
			for j := 0; j < k; j++ {
				verifAssert(visited[j] != visited[k], "union Walk: no path is visited twice")
			}
		}
	}
	vcCheckStateExt(b1, m1, tag1, "after union read (first)")
	vcCheckStateExt(b2, m2, tag2, "after union read (second)")
}

func vcCheckStateExt(b *bucket, m refCModel, tag string, where string) {
	verifAssert(len(b.pathToImmutableObject) == len(m), where+": member holds as many objects as before")
	for i := range m {
		obj, ok := b.pathToImmutableObject[m[i].path]
		verifAssert(ok && string(obj.Data()) == m[i].data && obj.ExternalPath() == tag+m[i].path, where+": member object unchanged")
	}
}

// VerifLemma_C14C_Strip: StripReadBucketExternalPaths = the same map with ExternalPath() == Path().
func VerifLemma_C14C_Strip() {
	ctx := context.Background()
	b1, m1, _, _ := vcTwoStates()
	view := storage.StripReadBucketExternalPaths(b1)
	s := verifNondetString(verifParam("ARG"))
	key, valid := refCKey(s)
	verifCover("state and argument")
	if verifNondetBool() {
		roc, err := view.Get(ctx, s)
		oi, serr := view.Stat(ctx, s)
		i := -1
		if valid {
			i = m1.find(key)
		}
		if !valid || key == "." {
			verifAssert(err != nil && serr != nil, "strip Get/Stat: invalid or root path is an error")
		} else if i < 0 {
			verifAssert(err != nil && storage.IsNotExist(err) && serr != nil && storage.IsNotExist(serr), "strip Get/Stat: absent path gives a not-exist error")
		} else {
			verifCover("strip present")
			verifAssert(err == nil && serr == nil, "strip Get/Stat: present path succeeds")
			if err == nil && serr == nil {
				verifAssert(roc.Path() == key && roc.ExternalPath() == key && oi.Path() == key && oi.ExternalPath() == key, "strip: external path equals path")
				verifAssert(vcReadAll(roc) == m1[i].data, "strip Get: content is the model's")
			}
		}
	} else {
		n := 0
		err := view.Walk(ctx, s, func(oi storage.ObjectInfo) error {
			n++
			i := m1.find(oi.Path())
			verifAssert(i >= 0 && oi.ExternalPath() == oi.Path(), "strip Walk: visits model objects with external path == path")
			return nil
		})
		if !valid {
			verifAssert(err != nil && n == 0, "strip Walk: invalid prefix is an error")
		} else {
			want := 0
			for i := range m1 {
				if refCContains(key, m1[i].path) {
					want++
				}
			}
			verifAssert(err == nil && n == want, "strip Walk: visits exactly the objects under the prefix")
		}
	}
	vcCheckStateExt(b1, m1, "1:", "after strip read")
}

// VerifLemma_C14C_Copy: storage.Copy(from, to) through the real thread.Parallelize: to := to U from (from wins),
// count = |from|; with CopyWithExternalAndLocalPaths the external paths travel too.
func VerifLemma_C14C_Copy() {
	ctx := context.Background()
	from, m1, to, m2 := vcTwoStates()
	withPaths := verifNondetBool()
	verifCover("states")
	var opts []storage.CopyOption
	if withPaths {
		opts = append(opts, storage.CopyWithExternalAndLocalPaths())
	}
	if verifNondetBool() {
		opts = append(opts, storage.CopyWithAtomic())
	}
	n, err := storage.Copy(ctx, from, to, opts...)
	verifAssert(err == nil, "Copy between memory buckets succeeds")
	verifAssert(n == len(m1), "Copy returns the number of source objects")
	want := len(m1)
	for i := range m2 {
		if m1.find(m2[i].path) < 0 {
			want++
		}
	}
	verifAssert(len(to.pathToImmutableObject) == want, "Copy: destination holds the union")
	for i := range m1 {
		obj, ok := to.pathToImmutableObject[m1[i].path]
		verifAssert(ok && string(obj.Data()) == m1[i].data && obj.Path() == m1[i].path, "Copy: every source object is in the destination with its content")
		if ok {
			if withPaths {
				verifAssert(obj.ExternalPath() == "1:"+m1[i].path, "Copy: external path copied when requested")
			} else {
				verifAssert(obj.ExternalPath() == m1[i].path, "Copy: external path defaults to the path")
			}
		}
	}
	for i := range m2 {
		if m1.find(m2[i].path) < 0 {
			obj, ok := to.pathToImmutableObject[m2[i].path]
			verifAssert(ok && string(obj.Data()) == m2[i].data, "Copy: destination objects not in the source are kept")
		}
	}
	vcCheckStateExt(from, m1, "1:", "after Copy (source)")
}

// ---- nested union / overlay (added after seeded change C14-r2m2: flattening nested multi buckets) ----

// vcOneObjBucket: a bucket holding 0..1 object at an arbitrary validated path; external path tag+path.
func vcOneObjBucket(tag string) (*bucket, refCModel) {
	objs := make(map[string]*internal.ImmutableObject)
	var m refCModel
	if verifNondetBool() {
		p := vcShapePath(verifParam("PATH"))
		d := verifNondetStringN(1)
		m = append(m, refCObj{path: p, data: d, present: true})
		objs[p] = internal.NewImmutableObject(p, tag+p, "", []byte(d))
	}
	return newBucket(objs), m
}

func vcCombine(overlay bool, x, y storage.ReadBucket) storage.ReadBucket {
	if overlay {
		return storage.OverlayReadBucket(x, y)
	}
	return storage.MultiReadBucket(x, y)
}

// refCResolve composes the two documented rules for one key over two sources, each already resolved to
// (tag of the winning member or "", duplicate error): union: present in both => duplicate error; overlay: first wins;
// a duplicate error of a nested member is an error of the composition in both modes (it is not a not-exist error).
func refCResolve(overlay bool, tagX string, dupX bool, tagY string, dupY bool) (string, bool) {
	if dupX {
		return "", true
	}
	if tagX != "" {
		if overlay {
			return tagX, false
		}
		if tagY != "" || dupY {
			return "", true
		}
		return tagX, false
	}
	if dupY {
		return "", true
	}
	return tagY, false
}

func vcTagOf(m refCModel, tag, key string) string {
	if m.find(key) >= 0 {
		return tag
	}
	return ""
}

// VerifLemma_C14C_NestedUnion: Outer(Inner(a,b), c) and Outer(c, Inner(a,b)) for Outer, Inner in {Multi, Overlay}
// over three memory buckets (0..1 object each, paths may coincide) agree with the reference obtained by composing
// the union rule and the overlay rule - on Get, Stat and Walk.
func VerifLemma_C14C_NestedUnion() {
	ctx := context.Background()
	a, ma := vcOneObjBucket("1:")
	b, mb := vcOneObjBucket("2:")
	c, mc := vcOneObjBucket("3:")
	innerOverlay := verifNondetBool()
	outerOverlay := verifNondetBool()
	innerFirst := verifNondetBool()
	inner := vcCombine(innerOverlay, a, b)
	var view storage.ReadBucket
	if innerFirst {
		view = vcCombine(outerOverlay, inner, c)
	} else {
		view = vcCombine(outerOverlay, c, inner)
	}
	s := verifNondetString(verifParam("ARG"))
	key, valid := refCKey(s)
	verifCover("buckets and argument")
	// reference resolution of one key
	resolve := func(k string) (string, bool) {
		ti, di := refCResolve(innerOverlay, vcTagOf(ma, "1:", k), false, vcTagOf(mb, "2:", k), false)
		tc := vcTagOf(mc, "3:", k)
		if innerFirst {
			return refCResolve(outerOverlay, ti, di, tc, false)
		}
		return refCResolve(outerOverlay, tc, false, ti, di)
	}
	dataOf := func(tag, k string) string {
		switch tag {
		case "1:":
			return ma[ma.find(k)].data
		case "2:":
			return mb[mb.find(k)].data
		}
		return mc[mc.find(k)].data
	}
	switch verifNondetChoice(3) {
	case 0, 1:
		isGet := verifNondetBool()
		var oi storage.ObjectInfo
		var err error
		content := ""
		if isGet {
			var roc storage.ReadObjectCloser
			roc, err = view.Get(ctx, s)
			if err == nil {
				oi = roc
				content = vcReadAll(roc)
			}
		} else {
			oi, err = view.Stat(ctx, s)
		}
		if !valid || key == "." {
			verifAssert(err != nil, "nested union Get/Stat: invalid or root path is an error")
			break
		}
		tag, dup := resolve(key)
		switch {
		case dup:
			verifCover("nested duplicate")
			verifAssert(err != nil && storage.IsExistsMultipleLocations(err) && !storage.IsNotExist(err), "nested union Get/Stat: a duplicate that the composed rules report is reported")
		case tag == "":
			verifAssert(err != nil && storage.IsNotExist(err), "nested union Get/Stat: path in no member gives a not-exist error")
		default:
			verifCover("nested resolved")
			verifAssert(err == nil, "nested union Get/Stat: a path the composed rules resolve succeeds (no spurious duplicate error)")
			if err == nil {
				verifAssert(oi.Path() == key && oi.ExternalPath() == tag+key, "nested union Get/Stat: the object comes from the member the composed rules select")
				if isGet {
					verifAssert(content == dataOf(tag, key), "nested union Get: content is the selected member's")
				}
			}
		}
	case 2:
		var visited, external []string
		err := view.Walk(ctx, s, func(oi storage.ObjectInfo) error {
			visited = append(visited, oi.Path())
			external = append(external, oi.ExternalPath())
			return nil
		})
		if !valid {
			verifAssert(err != nil && len(visited) == 0, "nested union Walk: invalid prefix is an error")
			break
		}
		// candidate keys: the (at most three) object paths under the prefix
		var keys []string
		add := func(m refCModel) {
			if len(m) == 1 && refCContains(key, m[0].path) {
				for _, k := range keys {
					if k == m[0].path {
						return
					}
				}
				keys = append(keys, m[0].path)
			}
		}
		add(ma)
		add(mb)
		add(mc)
		anyDup, shadowedDup := false, false
		for _, k := range keys {
			if _, dup := resolve(k); dup {
				anyDup = true
			}
			// A duplicate inside the nested *union* whose path an earlier overlay member shadows: the current code
			// reports it on Walk (every member is walked); succeeding with the shadowing object would be just as
			// consistent with Get/Stat. Either is accepted, but an error must be the duplicate error.
			if _, innerDup := refCResolve(innerOverlay, vcTagOf(ma, "1:", k), false, vcTagOf(mb, "2:", k), false); innerDup {
				shadowedDup = true
			}
		}
		if anyDup {
			verifCover("nested Walk duplicate")
			verifAssert(err != nil && storage.IsExistsMultipleLocations(err), "nested union Walk: a duplicate under the prefix that the composed rules report is reported")
			break
		}
		if shadowedDup && err != nil {
			verifAssert(storage.IsExistsMultipleLocations(err), "nested union Walk: the only error for resolvable paths is the report of a shadowed nested duplicate")
			break
		}
		verifAssert(err == nil, "nested union Walk: succeeds when the composed rules resolve every path (no spurious duplicate error)")
		verifAssert(len(visited) == len(keys), "nested union Walk: visits every path under the prefix exactly once")
		for i := range visited {
			tag, _ := resolve(visited[i])
			verifAssert(tag != "" && refCContains(key, visited[i]) && external[i] == tag+visited[i], "nested union Walk: each visited object is the one the composed rules select")
			for j := 0; j < i; j++ {
				verifAssert(visited[j] != visited[i], "nested union Walk: no path is visited twice")
			}
		}
	}
	vcCheckStateExt(a, ma, "1:", "after nested union read (a)")
	vcCheckStateExt(b, mb, "2:", "after nested union read (b)")
	vcCheckStateExt(c, mc, "3:", "after nested union read (c)")
}
