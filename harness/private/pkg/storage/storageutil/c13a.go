//go:build verif

package storageutil

import (
	"github.com/bufbuild/buf/private/pkg/normalpath"
)

func refCNoDotDot(p string) bool {
	start := 0
	for i := 0; i <= len(p); i++ {
		if i == len(p) || p[i] == '/' {
			if i-start == 2 && p[start] == '.' && p[start+1] == '.' {
				return false
			}
			start = i + 1
		}
	}
	return true
}

// vcShortFirstString: every byte string of 0..n bytes, shortest lengths explored first (the engine takes choice 0
// first and then the highest pending alternative), so that a change that makes the code under test fork heavily per
// byte cannot exhaust the budget on the long strings before the short hostile spellings ("..") are reached.
func vcShortFirstString(n int) string {
	c := verifNondetChoice(n + 1)
	return verifNondetStringN((n + 1 - c) % (n + 1))
}

// VerifLemma_C13A_ValidatePrefixPath: the two validators every leaf bucket entry point calls first
// (ValidatePrefix: Walk/DeleteAll; ValidatePath: Get/Stat/Put/Delete). Accepted => the result is relative, has no
// ".." component and is normalized (so joining it onto a root cannot leave the root); the verdict and result are
// exactly NormalizeAndValidate's (ValidatePath additionally rejects the root ".").
// (Added after seeded change C13-r2m1: a "fast path" in ValidatePrefix returning separator-free prefixes unvalidated.)
func VerifLemma_C13A_ValidatePrefixPath() {
	s := vcShortFirstString(verifParam("N"))
	verifCover("input")
	p, err := ValidatePrefix(s)
	if err == nil {
		verifCover("prefix accepted")
		verifAssert(len(p) > 0 && p[0] != '/', "accepted prefix is non-empty and relative")
		verifAssert(refCNoDotDot(p), "accepted prefix has no .. component")
		verifAssert(normalpath.Normalize(p) == p, "accepted prefix is normalized")
	}
	q, qerr := normalpath.NormalizeAndValidate(s)
	verifAssert((err == nil) == (qerr == nil), "ValidatePrefix accepts exactly what NormalizeAndValidate accepts")
	if err == nil && qerr == nil {
		verifAssert(p == q, "ValidatePrefix returns the normalized path")
	}
	p2, err2 := ValidatePath(s)
	verifAssert((err2 == nil) == (qerr == nil && q != "."), "ValidatePath accepts exactly the validated non-root paths")
	if err2 == nil {
		verifCover("path accepted")
		verifAssert(p2 == q && p2 != "." && refCNoDotDot(p2) && p2[0] != '/', "ValidatePath returns the normalized, relative, non-root path without .. components")
	}
}
