//go:build verif

package storageos

import (
	"bytes"
	"context"
	"errors"
	"io"
	"io/fs"
	"os"
	"sort"

	"github.com/bufbuild/buf/private/pkg/storage"
)

// ===================================================================================================
// C14-D: the *disk* bucket as a path -> bytes map, over operation sequences.
//
// Under the engine the real bucket code (Put atomic / non-atomic, Get, Stat, Delete, Walk and the write/read object
// closers) runs on the abstract file system of c15c.go; the handles are offset-aware (vdFS.writeAt): a file opened
// without O_TRUNC keeps its old bytes and a write overwrites from the handle's offset, exactly as write(2) does, so
// "overwrite with shorter content" is decided by the model and not assumed. Natively (replay, conformance) the same
// sequence runs on a real temp directory.
// ===================================================================================================

func verifOSOpen(name string) (*os.File, error) {
	f := vdFSState
	if _, ok := f.files[name]; !ok && !f.dirs[name] {
		return nil, &fs.PathError{Op: "open", Path: name, Err: fs.ErrNotExist}
	}
	file := f.newFile(name)
	f.open[file].readOnly = true
	return file, nil
}

// verifOSOpenFile models open(2) for regular files: O_CREATE (with O_EXCL), O_TRUNC, O_APPEND and the access mode.
func verifOSOpenFile(name string, flag int, perm os.FileMode) (*os.File, error) {
	f := vdFSState
	accMode := flag & (os.O_RDONLY | os.O_WRONLY | os.O_RDWR)
	mutating := flag&(os.O_CREATE|os.O_TRUNC) != 0
	if mutating {
		if err := f.step(); err != nil {
			return nil, &fs.PathError{Op: "open", Path: name, Err: err}
		}
	}
	if f.dirs[name] {
		if accMode != os.O_RDONLY || flag&(os.O_CREATE|os.O_TRUNC) != 0 {
			return nil, &fs.PathError{Op: "open", Path: name, Err: errors.New("is a directory")}
		}
		return f.newFile(name), nil
	}
	_, exists := f.files[name]
	if !exists {
		if flag&os.O_CREATE == 0 {
			return nil, &fs.PathError{Op: "open", Path: name, Err: fs.ErrNotExist}
		}
		if !f.dirs[vdDirOf(name)] {
			return nil, &fs.PathError{Op: "open", Path: name, Err: fs.ErrNotExist}
		}
		if len(vdBaseOf(name)) > vdNameMax {
			return nil, &fs.PathError{Op: "open", Path: name, Err: errors.New("file name too long")}
		}
		f.files[name] = []byte{}
	} else {
		if flag&os.O_CREATE != 0 && flag&os.O_EXCL != 0 {
			return nil, &fs.PathError{Op: "open", Path: name, Err: fs.ErrExist}
		}
		if flag&os.O_TRUNC != 0 && accMode != os.O_RDONLY {
			f.files[name] = []byte{}
		}
	}
	file := f.newFile(name)
	of := f.open[file]
	of.readOnly = accMode == os.O_RDONLY
	of.appendTo = flag&os.O_APPEND != 0
	if mutating {
		f.invariant()
	}
	return file, nil
}

func verifOSFileRead(file *os.File, p []byte) (int, error) {
	f := vdFSState
	of := f.open[file]
	if of == nil || of.closed {
		return 0, &fs.PathError{Op: "read", Path: "?", Err: fs.ErrClosed}
	}
	if f.dirs[of.path] {
		return 0, &fs.PathError{Op: "read", Path: of.path, Err: errors.New("is a directory")}
	}
	data := f.files[of.path]
	if of.pos >= len(data) {
		if len(p) == 0 {
			return 0, nil
		}
		return 0, io.EOF
	}
	n := copy(p, data[of.pos:])
	of.pos += n
	return n, nil
}

func verifOSFileReaddirnames(file *os.File, n int) ([]string, error) {
	f := vdFSState
	of := f.open[file]
	if of == nil || of.closed || !f.dirs[of.path] {
		return nil, &fs.PathError{Op: "readdirent", Path: "?", Err: errors.New("not a directory")}
	}
	var names []string
	for p := range f.files {
		if vdDirOf(p) == of.path {
			names = append(names, vdBaseOf(p))
		}
	}
	for p := range f.dirs {
		if p != "/" && p != of.path && vdDirOf(p) == of.path {
			names = append(names, vdBaseOf(p))
		}
	}
	sort.Strings(names)
	return names, nil
}

func verifOSRemoveAll(path string) error {
	f := vdFSState
	if err := f.step(); err != nil {
		return &fs.PathError{Op: "unlinkat", Path: path, Err: err}
	}
	under := func(p string) bool {
		return p == path || (len(p) > len(path) && p[:len(path)] == path && p[len(path)] == '/')
	}
	for p := range f.files {
		if under(p) {
			delete(f.files, p)
		}
	}
	for p := range f.dirs {
		if under(p) {
			delete(f.dirs, p)
		}
	}
	f.invariant()
	return nil
}

// vdSetFile plants a regular file behind the bucket's back (engine: in the model; natively: os.WriteFile).
func (w *vdWorld) setFile(rel string, data []byte) {
	if verifInEngine() {
		vdFSState.files[w.root+"/"+rel] = data
		return
	}
	if err := os.WriteFile(w.root+"/"+rel, data, 0644); err != nil {
		panic(err)
	}
}

// vdDiskGet reads an object through the bucket: (content, present). Any error other than not-exist is a harness failure.
func vdDiskGet(b *bucket, path string) ([]byte, bool, error) {
	r, err := b.Get(context.Background(), path)
	if err != nil {
		if errors.Is(err, fs.ErrNotExist) {
			return nil, false, nil
		}
		return nil, false, err
	}
	data, err := io.ReadAll(r)
	if err != nil {
		r.Close()
		return nil, false, err
	}
	if err := r.Close(); err != nil {
		return nil, false, err
	}
	return data, true, nil
}

// VerifLemma_C14D_DiskMap: a sequence of STEPS operations (non-atomic put, atomic put, delete, delete-all of the
// directory) on one path of the disk bucket, starting from an arbitrary old object (absent or 0..DATA symbolic bytes),
// next to a sibling object that no operation names. After every operation: Get returns exactly the model's bytes for
// the path or a not-exist error, Stat agrees, the sibling is untouched (unless the delete-all covered it), and Walk
// visits exactly the model's objects.
func VerifLemma_C14D_DiskMap() {
	n := verifParam("DATA")
	steps := verifParam("STEPS")
	hasOld := verifNondetBool()
	var old []byte
	if hasOld {
		old = verifNondetBytes(n)
	}
	sibling := verifNondetBytes(n)
	world := vdNewWorld(true, hasOld, old, false, "obj.bin")
	defer world.cleanup()
	if verifInEngine() {
		vdFSState.watch = world.root + "/<none>"
		vdFSState.oldPresent = false
	}
	world.setFile("sub/other.bin", sibling)
	b := &bucket{rootPath: world.root, absoluteRootPath: world.root}
	ctx := context.Background()
	const path, sibPath = "sub/obj.bin", "sub/other.bin"
	model := map[string][]byte{sibPath: sibling}
	if hasOld {
		model[path] = old
	}
	for i := 0; i < steps; i++ {
		switch verifNondetChoice(4) {
		case 0, 1:
			data := verifNondetBytes(n)
			var opts []storage.PutOption
			if verifNondetBool() {
				opts = append(opts, storage.PutWithAtomic())
			}
			w, err := b.Put(ctx, path, opts...)
			verifAssert(err == nil, "put on a healthy disk succeeds")
			if err != nil {
				return
			}
			// one or two writes
			cut := len(data)
			if len(data) > 1 && verifNondetBool() {
				cut = 1
			}
			_, werr := w.Write(data[:cut])
			verifAssert(werr == nil, "write on a healthy disk succeeds")
			if cut < len(data) {
				_, werr = w.Write(data[cut:])
				verifAssert(werr == nil, "second write on a healthy disk succeeds")
			}
			verifAssert(w.Close() == nil, "close on a healthy disk succeeds")
			model[path] = data
		case 2:
			err := b.Delete(ctx, path)
			if _, ok := model[path]; ok {
				verifAssert(err == nil, "delete of an existing object succeeds")
				delete(model, path)
			} else {
				verifAssert(err != nil && errors.Is(err, fs.ErrNotExist), "delete of a missing object is a not-exist error")
			}
		case 3:
			verifAssert(b.DeleteAll(ctx, "sub") == nil, "delete-all succeeds")
			delete(model, path)
			delete(model, sibPath)
		}
		verifCover("operation applied")
		for _, p := range []string{path, sibPath} {
			got, present, err := vdDiskGet(b, p)
			verifAssert(err == nil, "get reports only not-exist errors on a healthy disk")
			want, inModel := model[p]
			verifAssert(present == inModel, "get finds exactly the objects of the model")
			if present && inModel {
				verifAssert(bytes.Equal(got, want), "get returns exactly the bytes last put")
			}
			_, serr := b.Stat(ctx, p)
			verifAssert((serr == nil) == inModel, "stat finds exactly the objects of the model")
			verifAssert(serr == nil || errors.Is(serr, fs.ErrNotExist), "stat of a missing object is a not-exist error")
		}
		seen := map[string]bool{}
		werr := b.Walk(ctx, "", func(info storage.ObjectInfo) error {
			verifAssert(!seen[info.Path()], "walk visits each object once")
			seen[info.Path()] = true
			return nil
		})
		verifAssert(werr == nil, "walk succeeds")
		for p := range seen {
			_, inModel := model[p]
			verifAssert(inModel, "walk visits only objects of the model (no temp file, nothing deleted)")
		}
		for p := range model {
			verifAssert(seen[p], "walk visits every object of the model")
		}
	}
	verifCover("sequence finished")
}
