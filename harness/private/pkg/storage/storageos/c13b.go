//go:build verif

package storageos

import (
	"path/filepath"

	"github.com/bufbuild/buf/private/pkg/filepathext"
	"github.com/bufbuild/buf/private/pkg/normalpath"
)

// Pure path layer of the disk bucket (no syscalls): getExternalPath / getExternalPrefix on a bucket value built
// directly (newBucket would stat the directory). os.Getwd is the engine's fixed "/w".

func refCNoDotDot(p string) bool {
	start := 0
	for i := 0; i <= len(p); i++ {
		if i == len(p) || p[i] == '/' {
			if i-start == 2 && p[start] == '.' && p[start+1] == '.' {
				return false
			}
			start = i + 1
		}
	}
	return true
}

// refCUnder: see normalpath harness refUnder (ext is root or root + "/" + rest, rest without ".." components).
func refCUnder(root, ext string) bool {
	if ext == root {
		return true
	}
	var rest string
	switch {
	case root == ".":
		if len(ext) > 0 && ext[0] == '/' {
			return false
		}
		rest = ext
	case root == "/":
		if len(ext) == 0 || ext[0] != '/' {
			return false
		}
		rest = ext[1:]
	default:
		if len(ext) <= len(root)+1 || ext[:len(root)] != root || ext[len(root)] != '/' {
			return false
		}
		rest = ext[len(root)+1:]
	}
	return len(rest) > 0 && refCNoDotDot(rest)
}

func vcRootBucket(n int) *bucket {
	var root string
	switch verifNondetChoice(7) {
	case 0:
		root = "."
	case 1:
		root = "a"
	case 2:
		root = "a/b"
	case 3:
		root = "/r"
	case 4:
		root = "../u"
	case 5:
		root = "../w/x" // a relative spelling that re-enters the working directory
	default:
		root = verifNondetString(n)
		verifAssume(normalpath.Normalize(root) == root)
	}
	abs, err := filepath.Abs(root)
	verifAssume(err == nil)
	return &bucket{rootPath: root, absoluteRootPath: abs}
}

// VerifLemma_C13B_ExternalPath: whatever string is passed as an object path, the external (OS) path the disk
// bucket would touch is strictly below the bucket root, both as spelled (RealClean form) and as absolute path.
func VerifLemma_C13B_ExternalPath() {
	b := vcRootBucket(verifParam("ROOT"))
	s := verifNondetString(verifParam("N"))
	ext, err := b.getExternalPath(s)
	verifCover("called")
	rootReal, rerr := filepathext.RealClean(b.rootPath)
	verifAssume(rerr == nil)
	if err != nil {
		return
	}
	verifCover("accepted")
	// The cwd-relative spelling is a lexical descendant only when the root does not climb with ".." (a root such as
	// ".." with object "w" is spelled "." under cwd /w: below the root, but not lexically); the absolute form always is.
	if refCNoDotDot(rootReal) {
		verifAssert(ext != rootReal && refCUnder(rootReal, ext), "external path is strictly below the bucket root (as spelled)")
	}
	absExt, aerr := filepath.Abs(ext)
	verifAssert(aerr == nil && absExt != b.absoluteRootPath && refCUnder(b.absoluteRootPath, absExt), "absolute external path is strictly below the absolute root")
}

// VerifLemma_C13B_ExternalPrefix: same for prefixes (Walk / DeleteAll): root itself or below, never outside.
func VerifLemma_C13B_ExternalPrefix() {
	b := vcRootBucket(verifParam("ROOT"))
	s := verifNondetString(verifParam("N"))
	ext, err := b.getExternalPrefix(s)
	verifCover("called")
	rootReal, rerr := filepathext.RealClean(b.rootPath)
	verifAssume(rerr == nil)
	if err != nil {
		return
	}
	verifCover("accepted")
	if refCNoDotDot(rootReal) {
		verifAssert(refCUnder(rootReal, ext), "external prefix is the bucket root or below it (as spelled)")
	}
	absExt, aerr := filepath.Abs(ext)
	verifAssert(aerr == nil && refCUnder(b.absoluteRootPath, absExt), "absolute external prefix is the absolute root or below it")
	p, verr := normalpath.NormalizeAndValidate(s)
	verifAssert(verr == nil, "an accepted prefix is a validated path")
	if p == "." {
		verifAssert(ext == rootReal, "the root prefix maps to the bucket root")
	}
}

// VerifLemma_C13B_ExternalPathAccepts: good case - a harmless relative object path is accepted by the path layer.
func VerifLemma_C13B_ExternalPathAccepts() {
	b := vcRootBucket(verifParam("ROOT"))
	s := verifNondetString(verifParam("N"))
	p, verr := normalpath.NormalizeAndValidate(s)
	verifAssume(verr == nil && p != ".")
	verifCover("valid object path")
	ext, err := b.getExternalPath(s)
	verifAssert(err == nil && ext != "", "a validated non-root path has an external path")
	ext2, err2 := b.getExternalPath(p)
	verifAssert(err2 == nil && ext2 == ext, "equivalent spellings name the same external path")
}
