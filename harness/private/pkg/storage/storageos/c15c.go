//go:build verif

package storageos

import (
	"bytes"
	"context"
	"errors"
	"io/fs"
	"os"
	"time"

	"github.com/bufbuild/buf/private/pkg/storage"
)

// ===================================================================================================
// C15-C: the disk bucket's atomic Put on an abstract file system.
//
// The engine delegates os.CreateTemp/Create/Rename/Remove/Lstat/Stat/MkdirAll and (*os.File).Write/Close/Name to the
// verifOS* functions below (engine/intercepts_osfs.go). The model: regular files path -> bytes, a set of directories,
// every *mutating* syscall numbered 1,2,3..; syscall failAt / failAt2 fails without effect (a failing Write may first
// transfer a proper prefix). Rename is atomic (that is the assumed contract of the kernel, not something decided here).
// Every syscall boundary is a crash point: the watch invariant is asserted before and after each syscall.
// Natively (replay) these functions are not used - the real os package runs on a real temp directory and no fault can
// be injected, so a counterexample that needs a fault cannot be reproduced natively (reported INCONCLUSIVE).
// ===================================================================================================

var vdErrSys = errors.New("vd: injected syscall failure")

type vdOpenFile struct {
	path   string
	closed bool
}

type vdFS struct {
	files        map[string][]byte
	dirs         map[string]bool
	open         map[*os.File]*vdOpenFile
	ops          int
	failAt       int
	failAt2      int
	faulted      bool
	removeFailed bool
	tmpN         int
	// crash-point invariant for one watched path
	watch       string
	oldPresent  bool
	oldData     []byte
	newData     []byte
	checks      int
	renameCount int
}

var vdFSState *vdFS

func (f *vdFS) invariant() {
	f.checks++
	cur, present := f.files[f.watch]
	if !present {
		verifAssert(!f.oldPresent, "crash point: the final path never disappears")
		return
	}
	if f.oldPresent && bytes.Equal(cur, f.oldData) {
		return
	}
	verifAssert(bytes.Equal(cur, f.newData), "crash point: the final path holds the old content or the complete new content")
}

// step numbers a mutating syscall; it returns an error when this one is to fail.
func (f *vdFS) step() error {
	f.invariant()
	f.ops++
	if f.ops == f.failAt || f.ops == f.failAt2 {
		f.faulted = true
		return vdErrSys
	}
	return nil
}

func vdDirOf(p string) string {
	for i := len(p) - 1; i > 0; i-- {
		if p[i] == '/' {
			return p[:i]
		}
	}
	return "/"
}

func vdBaseOf(p string) string {
	for i := len(p) - 1; i >= 0; i-- {
		if p[i] == '/' {
			return p[i+1:]
		}
	}
	return p
}

func (f *vdFS) newFile(path string) *os.File {
	file := new(os.File)
	f.open[file] = &vdOpenFile{path: path}
	return file
}

func verifOSCreateTemp(dir, pattern string) (*os.File, error) {
	f := vdFSState
	if err := f.step(); err != nil {
		return nil, &fs.PathError{Op: "createtemp", Path: dir, Err: err}
	}
	if !f.dirs[dir] {
		return nil, &fs.PathError{Op: "createtemp", Path: dir, Err: fs.ErrNotExist}
	}
	prefix, suffix := pattern, ""
	for i := len(pattern) - 1; i >= 0; i-- {
		if pattern[i] == '*' {
			prefix, suffix = pattern[:i], pattern[i+1:]
			break
		}
	}
	f.tmpN++
	name := dir + "/" + prefix + []string{"0", "1", "2", "3"}[f.tmpN] + suffix
	verifAssert(name != f.watch, "the temp file is never the final path")
	f.files[name] = []byte{}
	defer f.invariant()
	return f.newFile(name), nil
}

func verifOSCreate(name string) (*os.File, error) {
	f := vdFSState
	if err := f.step(); err != nil {
		return nil, &fs.PathError{Op: "open", Path: name, Err: err}
	}
	if !f.dirs[vdDirOf(name)] {
		return nil, &fs.PathError{Op: "open", Path: name, Err: fs.ErrNotExist}
	}
	f.files[name] = []byte{} // created or truncated
	return f.newFile(name), nil
}

func verifOSFileWrite(file *os.File, p []byte) (int, error) {
	f := vdFSState
	of := f.open[file]
	if of == nil || of.closed {
		return 0, &fs.PathError{Op: "write", Path: "?", Err: fs.ErrClosed}
	}
	if err := f.step(); err != nil {
		n := 0
		if len(p) > 0 {
			n = []int{0, len(p) - 1}[verifNondetChoice(2)]
		}
		if _, ok := f.files[of.path]; ok && n > 0 {
			f.files[of.path] = append(append([]byte(nil), f.files[of.path]...), p[:n]...)
		}
		f.invariant()
		return n, &fs.PathError{Op: "write", Path: of.path, Err: err}
	}
	if _, ok := f.files[of.path]; ok {
		f.files[of.path] = append(append([]byte(nil), f.files[of.path]...), p...)
	}
	f.invariant()
	return len(p), nil
}

func verifOSFileClose(file *os.File) error {
	f := vdFSState
	of := f.open[file]
	if of == nil || of.closed {
		return &fs.PathError{Op: "close", Path: "?", Err: fs.ErrClosed}
	}
	of.closed = true
	if err := f.step(); err != nil {
		return &fs.PathError{Op: "close", Path: of.path, Err: err}
	}
	return nil
}

func verifOSFileName(file *os.File) string {
	if of := vdFSState.open[file]; of != nil {
		return of.path
	}
	return ""
}

func verifOSRename(oldpath, newpath string) error {
	f := vdFSState
	if err := f.step(); err != nil {
		return &os.LinkError{Op: "rename", Old: oldpath, New: newpath, Err: err}
	}
	data, ok := f.files[oldpath]
	if !ok {
		return &os.LinkError{Op: "rename", Old: oldpath, New: newpath, Err: fs.ErrNotExist}
	}
	delete(f.files, oldpath)
	f.files[newpath] = data
	f.renameCount++
	f.invariant()
	return nil
}

func verifOSRemove(name string) error {
	f := vdFSState
	if err := f.step(); err != nil {
		f.removeFailed = true
		return &fs.PathError{Op: "remove", Path: name, Err: err}
	}
	if _, ok := f.files[name]; !ok {
		return &fs.PathError{Op: "remove", Path: name, Err: fs.ErrNotExist}
	}
	delete(f.files, name)
	f.invariant()
	return nil
}

type vdFileInfo struct {
	name string
	dir  bool
	size int64
}

func (i vdFileInfo) Name() string { return i.name }
func (i vdFileInfo) Size() int64  { return i.size }
func (i vdFileInfo) Mode() fs.FileMode {
	if i.dir {
		return fs.ModeDir | 0755
	}
	return 0644
}
func (i vdFileInfo) ModTime() time.Time { return time.Time{} }
func (i vdFileInfo) IsDir() bool        { return i.dir }
func (i vdFileInfo) Sys() any           { return nil }

func verifOSLstat(name string) (os.FileInfo, error) {
	f := vdFSState
	if f.dirs[name] {
		return vdFileInfo{name: vdBaseOf(name), dir: true}, nil
	}
	if data, ok := f.files[name]; ok {
		return vdFileInfo{name: vdBaseOf(name), size: int64(len(data))}, nil
	}
	return nil, &fs.PathError{Op: "lstat", Path: name, Err: fs.ErrNotExist}
}

func verifOSMkdirAll(path string, perm os.FileMode) error {
	f := vdFSState
	if err := f.step(); err != nil {
		return &fs.PathError{Op: "mkdir", Path: path, Err: err}
	}
	for p := path; p != "/" && p != "" && p != "."; p = vdDirOf(p) {
		if _, isFile := f.files[p]; isFile {
			return &fs.PathError{Op: "mkdir", Path: p, Err: errors.New("not a directory")}
		}
		f.dirs[p] = true
	}
	return nil
}

func (f *vdFS) tempFilesLeft() int {
	n := 0
	for p := range f.files {
		if p != f.watch {
			n++
		}
	}
	return n
}

// VerifLemma_C15C_AtomicPut: bucket.Put(path, PutWithAtomic()) + one or two Writes + Close on the abstract file system,
// with every single (thorough: double) syscall failure (MkdirAll, CreateTemp, Write incl. short write, Close, Rename,
// Remove). The object may or may not exist before (old content symbolic); its directory may or may not exist.
//  (1) at every syscall boundary the final path holds the old content (or is absent as before) or the complete new content;
//  (2) Close()==nil => the final path holds exactly the written bytes, no temp file is left, exactly one rename;
//  (3) a failed Put/Write/Close => the final path is unchanged and, unless Remove itself failed, no temp file is left;
//  (4) any injected failure seen by the code is reported by Put, Write or Close.
func VerifLemma_C15C_AtomicPut() {
	if !verifInEngine() {
		return // the abstract file system only exists under the engine (see the note at the top of this file)
	}
	const root = "/cache"
	final := root + "/sub/obj.bin"
	f := &vdFS{files: map[string][]byte{}, dirs: map[string]bool{"/": true, root: true}, open: map[*os.File]*vdOpenFile{}, watch: final}
	vdFSState = f
	dirExists := verifNondetBool()
	if dirExists {
		f.dirs[root+"/sub"] = true
		if verifNondetBool() {
			f.oldPresent = true
			f.oldData = verifNondetBytes(verifParam("DATA"))
			f.files[final] = f.oldData
		}
	}
	data1 := verifNondetBytes(verifParam("DATA"))
	var data2 []byte
	twoWrites := verifNondetBool()
	if twoWrites {
		data2 = verifNondetBytes(verifParam("DATA"))
	}
	f.newData = append(append([]byte(nil), data1...), data2...)
	f.failAt = verifNondetInt(0, 7)
	if verifParam("DOUBLE") == 1 {
		f.failAt2 = verifNondetInt(0, 7)
		verifAssume(f.failAt2 == 0 || f.failAt2 > f.failAt)
	}
	b := &bucket{rootPath: root, absoluteRootPath: root}
	w, err := b.Put(context.Background(), "sub/obj.bin", storage.PutWithAtomic())
	failed := err != nil
	if err == nil {
		_, werr := w.Write(data1)
		failed = failed || werr != nil
		// a caller may stop at the first error or carry on; both must be safe
		if twoWrites && (werr == nil || verifNondetBool()) {
			_, werr2 := w.Write(data2)
			failed = failed || werr2 != nil
		} else if twoWrites {
			failed = true // the caller gave up before writing everything: it will not treat Close()==nil as success
		}
		cerr := w.Close()
		if werr != nil {
			verifAssert(cerr != nil, "Close reports an earlier failed Write of an atomic put")
		}
		failed = failed || cerr != nil
		if cerr == nil && !failed {
			verifCover("atomic put succeeded")
			cur, present := f.files[final]
			verifAssert(present && bytes.Equal(cur, f.newData), "Close()==nil: the final path holds exactly the written bytes")
			verifAssert(f.tempFilesLeft() == 0, "Close()==nil: no temp file is left")
			verifAssert(f.renameCount == 1, "Close()==nil: published by exactly one rename")
		}
	}
	f.invariant()
	verifCover("finished")
	verifAssert(!f.faulted || failed, "an injected syscall failure seen by the code is reported by Put, Write or Close")
	if failed {
		verifCover("atomic put failed")
		cur, present := f.files[final]
		verifAssert(present == f.oldPresent && (!present || bytes.Equal(cur, f.oldData)), "failed atomic put: the final path is unchanged")
		verifAssert(f.removeFailed || f.tempFilesLeft() == 0, "failed atomic put: no temp file is left unless Remove itself failed")
		verifAssert(f.renameCount == 0, "failed atomic put: nothing was renamed into place")
	}
	for _, of := range f.open {
		verifAssert(of.closed, "every opened file is closed")
	}
}
