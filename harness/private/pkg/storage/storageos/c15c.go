//go:build verif

package storageos

import (
	"bytes"
	"context"
	"errors"
	"io"
	"io/fs"
	"os"
	"time"

	"github.com/bufbuild/buf/private/pkg/storage"
)

// ===================================================================================================
// C15-C: the disk bucket's atomic Put on an abstract file system.
//
// The engine delegates os.CreateTemp/Create/Rename/Remove/Lstat/Stat/MkdirAll and (*os.File).Write/Close/Name to the
// verifOS* functions below (engine/intercepts_osfs.go). The model: regular files path -> bytes, a set of directories,
// every *mutating* syscall numbered 1,2,3..; syscall failAt / failAt2 fails without effect (a failing Write may first
// transfer a proper prefix). Rename is atomic (that is the assumed contract of the kernel, not something decided here).
// Every syscall boundary is a crash point: the watch invariant is asserted before and after each syscall.
// Natively (replay) these functions are not used - the real os package runs on a real temp directory and no fault can
// be injected, so a counterexample that needs a fault cannot be reproduced natively (reported INCONCLUSIVE).
// ===================================================================================================

var vdErrSys = errors.New("vd: injected syscall failure")

const vdNameMax = 255 // NAME_MAX

type vdOpenFile struct {
	path     string
	closed   bool
	readOnly bool // writes fail with EBADF (a handle that was opened read-only)
	pos      int  // file offset of the handle (reads and writes advance it)
	appendTo bool // O_APPEND: every write goes to the end of the file
}

type vdFS struct {
	files        map[string][]byte
	dirs         map[string]bool
	open         map[*os.File]*vdOpenFile
	ops          int
	failAt       int
	failAt2      int
	faulted      bool
	removeFailed bool
	tmpN         int
	// crash-point invariant for one watched path
	watch       string
	oldPresent  bool
	oldData     []byte
	newData     []byte
	checks      int
	renameCount int
}

var vdFSState *vdFS

func (f *vdFS) invariant() {
	f.checks++
	cur, present := f.files[f.watch]
	if !present {
		verifAssert(!f.oldPresent, "crash point: the final path never disappears")
		return
	}
	if f.oldPresent && bytes.Equal(cur, f.oldData) {
		return
	}
	verifAssert(bytes.Equal(cur, f.newData), "crash point: the final path holds the old content or the complete new content")
}

// step numbers a mutating syscall; it returns an error when this one is to fail.
func (f *vdFS) step() error {
	f.invariant()
	f.ops++
	if f.ops == f.failAt || f.ops == f.failAt2 {
		f.faulted = true
		return vdErrSys
	}
	return nil
}

func vdDirOf(p string) string {
	for i := len(p) - 1; i > 0; i-- {
		if p[i] == '/' {
			return p[:i]
		}
	}
	return "/"
}

func vdBaseOf(p string) string {
	for i := len(p) - 1; i >= 0; i-- {
		if p[i] == '/' {
			return p[i+1:]
		}
	}
	return p
}

func (f *vdFS) newFile(path string) *os.File {
	file := new(os.File)
	f.open[file] = &vdOpenFile{path: path}
	return file
}

func verifOSCreateTemp(dir, pattern string) (*os.File, error) {
	f := vdFSState
	if err := f.step(); err != nil {
		return nil, &fs.PathError{Op: "createtemp", Path: dir, Err: err}
	}
	if !f.dirs[dir] {
		return nil, &fs.PathError{Op: "createtemp", Path: dir, Err: fs.ErrNotExist}
	}
	prefix, suffix := pattern, ""
	for i := len(pattern) - 1; i >= 0; i-- {
		if pattern[i] == '*' {
			prefix, suffix = pattern[:i], pattern[i+1:]
			break
		}
	}
	if len(prefix)+len(suffix)+9 > vdNameMax {
		// the kernel refuses a file name longer than NAME_MAX (os.CreateTemp appends up to 10 random digits)
		return nil, &fs.PathError{Op: "open", Path: dir + "/" + prefix + "N" + suffix, Err: errors.New("file name too long")}
	}
	f.tmpN++
	name := dir + "/" + prefix + []string{"0", "1", "2", "3"}[f.tmpN] + suffix
	verifAssert(name != f.watch, "the temp file is never the final path")
	f.files[name] = []byte{}
	defer f.invariant()
	return f.newFile(name), nil
}

func verifOSCreate(name string) (*os.File, error) {
	f := vdFSState
	if err := f.step(); err != nil {
		return nil, &fs.PathError{Op: "open", Path: name, Err: err}
	}
	if !f.dirs[vdDirOf(name)] {
		return nil, &fs.PathError{Op: "open", Path: name, Err: fs.ErrNotExist}
	}
	if len(vdBaseOf(name)) > vdNameMax {
		return nil, &fs.PathError{Op: "open", Path: name, Err: errors.New("file name too long")}
	}
	f.files[name] = []byte{} // created or truncated
	return f.newFile(name), nil
}

// writeAt is the kernel's write(2) on a regular file: bytes land at the handle's offset (at the end with O_APPEND),
// overwrite what is there, extend the file when they reach past its end, and advance the offset.
func (f *vdFS) writeAt(of *vdOpenFile, p []byte) {
	cur, ok := f.files[of.path]
	if !ok {
		return // unlinked: the bytes go to an inode nobody can see
	}
	if of.appendTo || of.pos > len(cur) {
		of.pos = len(cur)
	}
	out := append([]byte(nil), cur[:of.pos]...)
	out = append(out, p...)
	if of.pos+len(p) < len(cur) {
		out = append(out, cur[of.pos+len(p):]...)
	}
	of.pos += len(p)
	f.files[of.path] = out
}

func verifOSFileWrite(file *os.File, p []byte) (int, error) {
	f := vdFSState
	of := f.open[file]
	if of == nil || of.closed {
		return 0, &fs.PathError{Op: "write", Path: "?", Err: fs.ErrClosed}
	}
	if of.readOnly {
		f.invariant()
		return 0, &fs.PathError{Op: "write", Path: of.path, Err: errors.New("bad file descriptor")}
	}
	if err := f.step(); err != nil {
		n := 0
		if len(p) > 0 {
			n = []int{0, len(p) - 1}[verifNondetChoice(2)]
		}
		if n > 0 {
			f.writeAt(of, p[:n])
		}
		f.invariant()
		return n, &fs.PathError{Op: "write", Path: of.path, Err: err}
	}
	f.writeAt(of, p)
	f.invariant()
	return len(p), nil
}

// verifOSFileReadFrom: (*os.File).ReadFrom = generic copy loop through Write (no splice / copy_file_range).
func verifOSFileReadFrom(file *os.File, r io.Reader) (int64, error) {
	var total int64
	buf := make([]byte, 4)
	for {
		n, rerr := r.Read(buf)
		if n > 0 {
			m, werr := verifOSFileWrite(file, buf[:n])
			total += int64(m)
			if werr != nil {
				return total, werr
			}
		}
		if rerr == io.EOF {
			return total, nil
		}
		if rerr != nil {
			return total, rerr
		}
	}
}

func verifOSFileClose(file *os.File) error {
	f := vdFSState
	of := f.open[file]
	if of == nil || of.closed {
		return &fs.PathError{Op: "close", Path: "?", Err: fs.ErrClosed}
	}
	of.closed = true
	if err := f.step(); err != nil {
		return &fs.PathError{Op: "close", Path: of.path, Err: err}
	}
	return nil
}

func verifOSFileName(file *os.File) string {
	if of := vdFSState.open[file]; of != nil {
		return of.path
	}
	return ""
}

func verifOSRename(oldpath, newpath string) error {
	f := vdFSState
	if err := f.step(); err != nil {
		return &os.LinkError{Op: "rename", Old: oldpath, New: newpath, Err: err}
	}
	data, ok := f.files[oldpath]
	if !ok {
		return &os.LinkError{Op: "rename", Old: oldpath, New: newpath, Err: fs.ErrNotExist}
	}
	if f.dirs[newpath] {
		return &os.LinkError{Op: "rename", Old: oldpath, New: newpath, Err: errors.New("file exists")}
	}
	delete(f.files, oldpath)
	f.files[newpath] = data
	f.renameCount++
	f.invariant()
	return nil
}

func verifOSRemove(name string) error {
	f := vdFSState
	if err := f.step(); err != nil {
		f.removeFailed = true
		return &fs.PathError{Op: "remove", Path: name, Err: err}
	}
	if _, ok := f.files[name]; !ok {
		return &fs.PathError{Op: "remove", Path: name, Err: fs.ErrNotExist}
	}
	delete(f.files, name)
	f.invariant()
	return nil
}

type vdFileInfo struct {
	name string
	dir  bool
	size int64
}

func (i vdFileInfo) Name() string { return i.name }
func (i vdFileInfo) Size() int64  { return i.size }
func (i vdFileInfo) Mode() fs.FileMode {
	if i.dir {
		return fs.ModeDir | 0755
	}
	return 0644
}
func (i vdFileInfo) ModTime() time.Time { return time.Time{} }
func (i vdFileInfo) IsDir() bool        { return i.dir }
func (i vdFileInfo) Sys() any           { return nil }

func verifOSLstat(name string) (os.FileInfo, error) {
	f := vdFSState
	if f.dirs[name] {
		return vdFileInfo{name: vdBaseOf(name), dir: true}, nil
	}
	if data, ok := f.files[name]; ok {
		return vdFileInfo{name: vdBaseOf(name), size: int64(len(data))}, nil
	}
	return nil, &fs.PathError{Op: "lstat", Path: name, Err: fs.ErrNotExist}
}

func verifOSMkdirAll(path string, perm os.FileMode) error {
	f := vdFSState
	if err := f.step(); err != nil {
		return &fs.PathError{Op: "mkdir", Path: path, Err: err}
	}
	for p := path; p != "/" && p != "" && p != "."; p = vdDirOf(p) {
		if _, isFile := f.files[p]; isFile {
			return &fs.PathError{Op: "mkdir", Path: p, Err: errors.New("not a directory")}
		}
		f.dirs[p] = true
	}
	return nil
}

// vdPlainReader has only Read (no WriteTo), so io.Copy uses the destination's ReaderFrom when it has one.
type vdPlainReader struct{ r *bytes.Reader }

func (p vdPlainReader) Read(b []byte) (int, error) { return p.r.Read(b) }

func vdWriteTo(w io.Writer, data []byte, viaCopy bool) error {
	if viaCopy {
		_, err := io.Copy(w, vdPlainReader{bytes.NewReader(data)})
		return err
	}
	_, err := w.Write(data)
	return err
}

func (f *vdFS) tempFilesLeft() int {
	n := 0
	for p := range f.files {
		if p != f.watch {
			n++
		}
	}
	return n
}

// VerifLemma_C15C_AtomicPut: bucket.Put(path, PutWithAtomic()) + one or two Writes + Close on the abstract file system,
// with every single (thorough: double) syscall failure (MkdirAll, CreateTemp, Write incl. short write, Close, Rename,
// Remove). The object may or may not exist before (old content symbolic); its directory may or may not exist.
//  (1) at every syscall boundary the final path holds the old content (or is absent as before) or the complete new content;
//  (2) Close()==nil => the final path holds exactly the written bytes, no temp file is left, exactly one rename;
//  (3) a failed Put/Write/Close => the final path is unchanged and, unless Remove itself failed, no temp file is left;
//  (4) any injected failure seen by the code is reported by Put, Write or Close.
func VerifLemma_C15C_AtomicPut() {
	if !verifInEngine() {
		return // the abstract file system only exists under the engine (see the note at the top of this file)
	}
	const root = "/cache"
	final := root + "/sub/obj.bin"
	f := &vdFS{files: map[string][]byte{}, dirs: map[string]bool{"/": true, root: true}, open: map[*os.File]*vdOpenFile{}, watch: final}
	vdFSState = f
	dirExists := verifNondetBool()
	if dirExists {
		f.dirs[root+"/sub"] = true
		if verifNondetBool() {
			f.oldPresent = true
			f.oldData = verifNondetBytes(verifParam("DATA"))
			f.files[final] = f.oldData
		}
	}
	data1 := verifNondetBytes(verifParam("DATA"))
	var data2 []byte
	twoWrites := verifNondetBool()
	if twoWrites {
		data2 = verifNondetBytes(verifParam("DATA"))
	}
	f.newData = append(append([]byte(nil), data1...), data2...)
	f.failAt = verifNondetInt(0, 7)
	if verifParam("DOUBLE") == 1 {
		f.failAt2 = verifNondetInt(0, 7)
		verifAssume(f.failAt2 == 0 || f.failAt2 > f.failAt)
	}
	b := &bucket{rootPath: root, absoluteRootPath: root}
	w, err := b.Put(context.Background(), "sub/obj.bin", storage.PutWithAtomic())
	failed := err != nil
	viaCopy := verifNondetBool() // drive the object with io.Copy (uses ReaderFrom if the object has one) or with Write
	if err == nil {
		werr := vdWriteTo(w, data1, viaCopy)
		failed = failed || werr != nil
		// a caller may stop at the first error or carry on; both must be safe
		if twoWrites && (werr == nil || verifNondetBool()) {
			werr2 := vdWriteTo(w, data2, viaCopy)
			failed = failed || werr2 != nil
		} else if twoWrites {
			failed = true // the caller gave up before writing everything: it will not treat Close()==nil as success
		}
		cerr := w.Close()
		// (whether Close repeats an error that Write already reported is not specified; what matters is below:
		// after any reported failure the final path is unchanged)
		failed = failed || cerr != nil
		if cerr == nil && !failed {
			verifCover("atomic put succeeded")
			cur, present := f.files[final]
			verifAssert(present && bytes.Equal(cur, f.newData), "Close()==nil: the final path holds exactly the written bytes")
			verifAssert(f.tempFilesLeft() == 0, "Close()==nil: no temp file is left")
		}
	}
	f.invariant()
	verifCover("finished")
	verifAssert(!f.faulted || failed, "an injected syscall failure seen by the code is reported by Put, Write or Close")
	if failed {
		verifCover("atomic put failed")
		cur, present := f.files[final]
		verifAssert(present == f.oldPresent && (!present || bytes.Equal(cur, f.oldData)), "failed atomic put: the final path is unchanged")
		verifAssert(f.removeFailed || f.tempFilesLeft() == 0, "failed atomic put: no temp file is left unless Remove itself failed")
	}
}

// ===================================================================================================
// Second lemma: only fault classes that can be produced identically on the real file system, so that a counterexample
// replays natively (real os package on a temp directory):
//   - the temp file's handle is replaced by a read-only handle before the k-th write: that write and all later ones
//     fail, Close of the handle succeeds ("write fails, close succeeds");
//   - the temp file disappears before Close: Rename fails and Remove fails;
//   - the destination is a directory: Rename fails, Remove succeeds.
// ===================================================================================================

type vdWorld struct {
	root  string
	final string
	base  string // base name of the object
}

// vdLongName: 250 bytes - the object's own name fits NAME_MAX, the atomic writer's temp name (".tmp"+name+random) does not,
// so os.CreateTemp fails with ENAMETOOLONG on a real file system as well.
func vdLongName() string {
	b := make([]byte, 250)
	for i := range b {
		b[i] = 'n'
	}
	return string(b)
}

func vdNewWorld(subdirExists bool, oldPresent bool, oldData []byte, destIsDir bool, base string) *vdWorld {
	w := &vdWorld{base: base}
	if verifInEngine() {
		w.root = "/cache"
		w.final = w.root + "/sub/" + base
		f := &vdFS{files: map[string][]byte{}, dirs: map[string]bool{"/": true, w.root: true}, open: map[*os.File]*vdOpenFile{}, watch: w.final}
		vdFSState = f
		if subdirExists {
			f.dirs[w.root+"/sub"] = true
		}
		if oldPresent {
			f.oldPresent, f.oldData = true, oldData
			f.files[w.final] = oldData
		}
		if destIsDir {
			f.dirs[w.final] = true
		}
		return w
	}
	root, err := os.MkdirTemp("", "verif-c15c-")
	if err != nil {
		panic(err)
	}
	w.root = root
	w.final = root + "/sub/" + base
	if subdirExists {
		if err := os.Mkdir(root+"/sub", 0755); err != nil {
			panic(err)
		}
	}
	if oldPresent {
		if err := os.WriteFile(w.final, oldData, 0644); err != nil {
			panic(err)
		}
	}
	if destIsDir {
		if err := os.Mkdir(w.final, 0755); err != nil {
			panic(err)
		}
	}
	return w
}

func (w *vdWorld) cleanup() {
	if !verifInEngine() {
		os.RemoveAll(w.root)
	}
}

// readFinal returns the content of the final path (present=false: no regular file there).
func (w *vdWorld) readFinal() ([]byte, bool) {
	if verifInEngine() {
		data, ok := vdFSState.files[w.final]
		return data, ok
	}
	info, err := os.Lstat(w.final)
	if err != nil || !info.Mode().IsRegular() {
		return nil, false
	}
	data, err := os.ReadFile(w.final)
	if err != nil {
		return nil, false
	}
	return data, true
}

// tempLeft counts directory entries next to the final path other than the final path itself.
func (w *vdWorld) tempLeft() int {
	if verifInEngine() {
		return vdFSState.tempFilesLeft()
	}
	entries, err := os.ReadDir(w.root + "/sub")
	if err != nil {
		return 0
	}
	n := 0
	for _, e := range entries {
		if e.Name() != w.base {
			n++
		}
	}
	return n
}

// breakHandle replaces the object's temp-file handle by a read-only one: writes fail, Close succeeds.
func (w *vdWorld) breakHandle(woc *writeObjectCloser) {
	if verifInEngine() {
		vdFSState.open[woc.file].readOnly = true
		return
	}
	ro, err := os.Open(woc.file.Name())
	if err != nil {
		panic(err)
	}
	woc.file.Close()
	woc.file = ro
}

// loseTemp removes the temp file behind the object's back: Rename and Remove will both fail.
func (w *vdWorld) loseTemp(woc *writeObjectCloser) {
	if verifInEngine() {
		delete(vdFSState.files, vdFSState.open[woc.file].path)
		return
	}
	os.Remove(woc.file.Name())
}

// VerifLemma_C15C_AtomicPutRealFaults: see the comment above. Checked: (1) a failed write is reported by Write/io.Copy
// and by Close; (2) after any failure the final path is unchanged (old content, absent, or still the directory) and no
// temp file is left (unless the temp file itself was lost); (3) a failing Rename makes Close return an error whatever is
// at the destination; (4) Close()==nil => the final path holds exactly the written bytes; (5) engine only: the
// crash-point invariant at every syscall boundary.
func VerifLemma_C15C_AtomicPutRealFaults() {
	subdirExists := verifNondetBool()
	oldPresent, destIsDir := false, false
	var oldData []byte
	if subdirExists {
		switch verifNondetChoice(3) {
		case 1:
			oldPresent = true
			oldData = verifNondetBytes(verifParam("DATA"))
		case 2:
			destIsDir = true
		}
	}
	data1 := verifNondetBytes(verifParam("DATA"))
	data2 := verifNondetBytes(verifParam("DATA"))
	newData := append(append([]byte(nil), data1...), data2...)
	breakBefore := verifNondetChoice(3) // 0: never, 1: before the first write, 2: before the second write
	loseTemp := verifNondetBool()
	viaCopy := verifNondetBool()
	base := "obj.bin"
	longName := verifNondetBool()
	if longName {
		base = vdLongName()
	}
	world := vdNewWorld(subdirExists, oldPresent, oldData, destIsDir, base)
	defer world.cleanup()
	if verifInEngine() {
		vdFSState.newData = newData
		if destIsDir {
			vdFSState.watch = world.final + "/<none>" // the final path is a directory: nothing to watch
		}
	}
	// all-or-nothing at every step, observed from outside (works natively too): the final path holds what it held
	// before (old content / absent / the directory) or the complete new content
	step := func() {
		cur, present := world.readFinal()
		if present == oldPresent && (!present || bytes.Equal(cur, oldData)) {
			return
		}
		verifAssert(present && bytes.Equal(cur, newData), "at every step the final path holds the previous state or the complete new content")
	}
	b := &bucket{rootPath: world.root, absoluteRootPath: world.root}
	w, err := b.Put(context.Background(), "sub/"+base, storage.PutWithAtomic())
	step()
	if err != nil {
		verifCover("atomic put refused")
		// Put may refuse early for any reason the file system gives it (temp file cannot be created, destination is a
		// directory, ...); on a healthy file system it must work
		verifAssert(longName || destIsDir, "Put succeeds on a healthy file system")
		cur, present := world.readFinal()
		verifAssert(present == oldPresent && (!present || bytes.Equal(cur, oldData)), "a refused atomic put leaves the destination untouched")
		verifAssert(world.tempLeft() == 0, "a refused atomic put leaves no temp file")
		return
	}
	woc, ok := w.(*writeObjectCloser)
	verifAssert(ok, "harness: the disk bucket returns its writeObjectCloser")
	if !ok {
		return
	}
	if breakBefore == 1 {
		world.breakHandle(woc)
	}
	werr1 := vdWriteTo(w, data1, viaCopy)
	step()
	if breakBefore == 2 {
		world.breakHandle(woc)
	}
	werr2 := vdWriteTo(w, data2, viaCopy)
	step()
	mustFail := (breakBefore == 1 && len(data1) > 0) || (breakBefore != 0 && len(data2) > 0)
	writeFailed := werr1 != nil || werr2 != nil
	verifAssert(!mustFail || writeFailed, "a failing write is reported by Write / io.Copy")
	// (a zero-length write on the broken handle may or may not fail)
	verifAssert(breakBefore != 0 || !writeFailed, "writes on a healthy handle succeed")
	if loseTemp {
		world.loseTemp(woc)
	}
	cerr := w.Close()
	verifCover("closed")
	// a failed write was already reported by Write / io.Copy; whether Close repeats it is not specified
	failed := writeFailed || cerr != nil
	if (loseTemp || destIsDir) && !writeFailed {
		verifAssert(cerr != nil, "a failing Rename makes Close return an error, whatever is at the destination")
	}
	cur, present := world.readFinal()
	if !failed {
		verifCover("published")
		verifAssert(present && bytes.Equal(cur, newData), "no failure reported: the final path holds exactly the written bytes")
		verifAssert(world.tempLeft() == 0, "no failure reported: no temp file is left")
	} else {
		verifCover("failed")
		verifAssert(present == oldPresent && (!present || bytes.Equal(cur, oldData)), "failed atomic put: the final path is unchanged")
		verifAssert(world.tempLeft() == 0, "failed atomic put: no temp file is left")
	}
	if !writeFailed && !loseTemp && !destIsDir {
		verifAssert(cerr == nil, "no failure: Close succeeds")
	}
}
