//go:build verif

package storage

import "context"

// ---- grpH, C02-C: a bucket that enumerates its objects in an arbitrary order ----

type vhObjectInfo struct{ path string }

func (o *vhObjectInfo) Path() string         { return o.path }
func (o *vhObjectInfo) ExternalPath() string { return o.path }
func (o *vhObjectInfo) LocalPath() string    { return "" }

type vhWalkBucket struct {
	ReadBucket
	objs  []*vhObjectInfo // visited in this order
	walks int
}

func (b *vhWalkBucket) Walk(ctx context.Context, prefix string, f func(ObjectInfo) error) error {
	b.walks++
	for _, o := range b.objs {
		if err := f(o); err != nil {
			return err
		}
	}
	return nil
}

// vhNondetPermutation returns the objects in a nondeterministically chosen order (every order is explored).
func vhNondetPermutation(objs []*vhObjectInfo) []*vhObjectInfo {
	rest := append([]*vhObjectInfo(nil), objs...)
	var out []*vhObjectInfo
	for len(rest) > 0 {
		k := verifNondetChoice(len(rest))
		out = append(out, rest[k])
		rest = append(rest[:k:k], rest[k+1:]...)
	}
	return out
}

// VerifLemma_C02C_AllPaths: AllPaths and AllObjectInfos over a bucket that walks its <= OBJS objects (distinct
// symbolic paths) in any order: the result is the strictly ascending list of exactly the bucket's paths - the same
// for every walk order.
func VerifLemma_C02C_AllPaths() {
	n := verifNondetChoice(verifParam("OBJS") + 1)
	objs := make([]*vhObjectInfo, n)
	for i := 0; i < n; i++ {
		objs[i] = &vhObjectInfo{path: verifNondetStringN(verifNondetChoice(verifParam("N")) + 1)}
		for j := 0; j < i; j++ {
			verifAssume(objs[j].path != objs[i].path)
		}
	}
	bucket := &vhWalkBucket{objs: vhNondetPermutation(objs)}
	paths, err := AllPaths(context.Background(), bucket, "")
	infos, err2 := AllObjectInfos(context.Background(), bucket, "")
	verifCover("walked")
	verifAssert(err == nil && err2 == nil, "no error")
	verifAssert(len(paths) == n && len(infos) == n, "every object exactly once")
	for i := 0; i < len(paths); i++ {
		if i > 0 {
			verifAssert(paths[i-1] < paths[i], "AllPaths strictly ascending for every walk order")
		}
		found := false
		for _, o := range objs {
			if o.path == paths[i] {
				found = true
			}
		}
		verifAssert(found, "AllPaths returns only paths of the bucket")
	}
	if len(infos) == len(paths) {
		for i := range infos {
			verifAssert(infos[i].Path() == paths[i], "AllObjectInfos in the same ascending order")
		}
	}
}
