//go:build verif

package storage

import (
	"context"
	"errors"
	"io"
	"io/fs"
)

// ---- fault-injectable stub bucket (every operation may fail; failures are recorded) ----

var (
	vFaultObserved bool // some injected failure was returned to the code under test
	vErrInjected   = errors.New("injected fault")
)

// vErrKind: the *kind* of every injected error on this path, chosen (by the solver) at the first injection:
// a generic error, a not-exist flavoured *fs.PathError, context.Canceled, io.ErrShortWrite. Code that treats some error
// kinds as "not really a failure" is thereby exercised with a failing destination / source of that kind.
var vErrKind = -1

func vReset() {
	vFaultObserved = false
	vErrKind = -1
}

// vInjected returns the error value to inject (param KINDS = how many of the kinds are explored).
func vInjected() error {
	if vErrKind < 0 {
		vErrKind = verifNondetChoice(verifParam("KINDS"))
	}
	switch vErrKind {
	case 1:
		return &fs.PathError{Op: "open", Path: "injected", Err: fs.ErrNotExist}
	case 2:
		return context.Canceled
	case 3:
		return io.ErrShortWrite
	}
	return vErrInjected
}

// vIsInjected: the injected error (of this path's kind) is in err's chain.
func vIsInjected(err error) bool {
	switch vErrKind {
	case 1:
		return errors.Is(err, fs.ErrNotExist)
	case 2:
		return errors.Is(err, context.Canceled)
	case 3:
		return errors.Is(err, io.ErrShortWrite)
	}
	return errors.Is(err, vErrInjected)
}

func vFail(enabled bool) error {
	if enabled {
		vFaultObserved = true
		return vInjected()
	}
	return nil
}

type vReadObj struct {
	data        string
	pos         int
	readFailAt  int // fail the k-th Read call (1-based), 0 = never
	reads       int
	closeFail   bool
	closed      int
	chunk       int // max bytes per Read (0 = unlimited)
}

func (o *vReadObj) Read(p []byte) (int, error) {
	o.reads++
	if o.readFailAt == o.reads {
		return 0, vFail(true)
	}
	if o.pos >= len(o.data) {
		return 0, io.EOF
	}
	end := len(o.data)
	if o.chunk > 0 && o.pos+o.chunk < end {
		end = o.pos + o.chunk
	}
	n := copy(p, o.data[o.pos:end])
	o.pos += n
	return n, nil
}
func (o *vReadObj) Close() error         { o.closed++; return vFail(o.closeFail) }
func (o *vReadObj) Path() string         { return "p" }
func (o *vReadObj) ExternalPath() string { return "ext/p" }
func (o *vReadObj) LocalPath() string    { return "loc/p" }

type vReadBucket struct {
	ReadBucket
	obj     *vReadObj
	getFail bool
	gets    int
}

func (b *vReadBucket) Get(ctx context.Context, path string) (ReadObjectCloser, error) {
	b.gets++
	if err := vFail(b.getFail); err != nil {
		return nil, err
	}
	return b.obj, nil
}

func (b *vReadBucket) Walk(ctx context.Context, prefix string, f func(ObjectInfo) error) error {
	return f(b.obj)
}

type vWriteObj struct {
	wrote        []byte
	writeFailAt  int // fail the k-th Write (1-based), 0 = never
	shortWrite   bool
	writes       int
	closeFail    bool
	setExtFail   bool
	setLocalFail bool
	closed       int
	ext, local   string
}

func (w *vWriteObj) Write(p []byte) (int, error) {
	w.writes++
	if w.writeFailAt == w.writes {
		if w.shortWrite && len(p) > 0 {
			w.wrote = append(w.wrote, p[:len(p)-1]...)
			return len(p) - 1, vFail(true)
		}
		return 0, vFail(true)
	}
	w.wrote = append(w.wrote, p...)
	return len(p), nil
}
func (w *vWriteObj) Close() error { w.closed++; return vFail(w.closeFail) }
func (w *vWriteObj) SetExternalPath(p string) error {
	if err := vFail(w.setExtFail); err != nil {
		return err
	}
	w.ext = p
	return nil
}
func (w *vWriteObj) SetLocalPath(p string) error {
	if err := vFail(w.setLocalFail); err != nil {
		return err
	}
	w.local = p
	return nil
}

type vWriteBucket struct {
	WriteBucket
	obj     *vWriteObj
	putFail bool
	puts    int
	atomic  bool
}

func (b *vWriteBucket) Put(ctx context.Context, path string, opts ...PutOption) (WriteObjectCloser, error) {
	b.puts++
	b.atomic = NewPutOptions(opts).Atomic()
	if err := vFail(b.putFail); err != nil {
		return nil, err
	}
	return b.obj, nil
}

func vNewReadBucket() *vReadBucket {
	obj := &vReadObj{data: verifNondetString(verifParam("DATA")), closeFail: verifNondetBool(), readFailAt: verifNondetInt(0, 2), chunk: verifNondetInt(0, 2)}
	return &vReadBucket{obj: obj, getFail: verifNondetBool()}
}

func vNewWriteBucket() *vWriteBucket {
	obj := &vWriteObj{writeFailAt: verifNondetInt(0, 2), shortWrite: verifNondetBool(), closeFail: verifNondetBool(),
		setExtFail: verifNondetBool(), setLocalFail: verifNondetBool()}
	return &vWriteBucket{obj: obj, putFail: verifNondetBool()}
}

func vCheckWriteSide(wb *vWriteBucket, err error, want string, label string) {
	verifAssert(!vFaultObserved || err != nil, label+": an injected failure seen by the code is reported")
	verifAssert(err != nil || string(wb.obj.wrote) == want, label+": nil error implies the full content was written")
	if wb.puts > 0 && !wb.putFail {
		verifAssert(wb.obj.closed == 1, label+": write object closed exactly once")
	}
}

// VerifLemma_C15A_CopyPath: copyPath (Get, Put, SetExternal/LocalPath, io.Copy, both Closes) under every
// combination of injected failures.
func VerifLemma_C15A_CopyPath() {
	vReset()
	rb, wb := vNewReadBucket(), vNewWriteBucket()
	copyExt, atomic := verifNondetBool(), verifNondetBool()
	err := copyPath(context.Background(), rb, "p", wb, "q", copyExt, atomic)
	verifCover("returned")
	if verifKnown("F1-copypath-swallows-write-errors", err == nil && vFaultObserved && !rb.getFail) {
		return
	}
	vCheckWriteSide(wb, err, rb.obj.data, "copyPath")
	if !rb.getFail {
		verifAssert(rb.obj.closed == 1, "copyPath: read object closed exactly once")
	}
	if err == nil {
		verifAssert(wb.atomic == atomic, "copyPath: atomic option forwarded to Put")
		if copyExt {
			verifAssert(wb.obj.ext == "ext/p" && wb.obj.local == "loc/p", "copyPath: external and local paths forwarded")
		}
	}
}

// VerifLemma_C15A_CopyReadObject: the exported CopyReadObject.
func VerifLemma_C15A_CopyReadObject() {
	vReset()
	rb, wb := vNewReadBucket(), vNewWriteBucket()
	var opts []CopyOption
	if verifNondetBool() {
		opts = append(opts, CopyWithExternalAndLocalPaths())
	}
	if verifNondetBool() {
		opts = append(opts, CopyWithAtomic())
	}
	err := CopyReadObject(context.Background(), wb, rb.obj, opts...)
	verifCover("returned")
	vCheckWriteSide(wb, err, rb.obj.data, "CopyReadObject")
}

// VerifLemma_C15A_CopyReader: CopyReader(io.Reader).
func VerifLemma_C15A_CopyReader() {
	vReset()
	rb, wb := vNewReadBucket(), vNewWriteBucket()
	err := CopyReader(context.Background(), wb, rb.obj, "q")
	verifCover("returned")
	vCheckWriteSide(wb, err, rb.obj.data, "CopyReader")
}

// VerifLemma_C15A_PutPath: PutPath(data).
func VerifLemma_C15A_PutPath() {
	vReset()
	wb := vNewWriteBucket()
	data := verifNondetString(verifParam("DATA"))
	var opts []PutOption
	atomic := verifNondetBool()
	if atomic {
		opts = append(opts, PutWithAtomic())
	}
	err := PutPath(context.Background(), wb, "q", []byte(data), opts...)
	verifCover("returned")
	vCheckWriteSide(wb, err, data, "PutPath")
	verifAssert(wb.atomic == atomic, "PutPath: atomic option forwarded")
}

// VerifLemma_C15A_ForWriteObject: ForWriteObject with a callback that writes and may itself fail.
func VerifLemma_C15A_ForWriteObject() {
	vReset()
	wb := vNewWriteBucket()
	data := verifNondetString(verifParam("DATA"))
	cbFail := verifNondetBool()
	err := ForWriteObject(context.Background(), wb, "q", func(w WriteObject) error {
		if _, err := w.Write([]byte(data)); err != nil {
			return err
		}
		return vFail(cbFail)
	})
	verifCover("returned")
	vCheckWriteSide(wb, err, data, "ForWriteObject")
}

// VerifLemma_C15A_ReadPath: ReadPath reports Get/Read/Close failures and otherwise returns the content.
func VerifLemma_C15A_ReadPath() {
	vReset()
	rb := vNewReadBucket()
	data, err := ReadPath(context.Background(), rb, "p")
	verifCover("returned")
	verifAssert(!vFaultObserved || err != nil, "ReadPath: an injected failure is reported")
	verifAssert(err != nil || string(data) == rb.obj.data, "ReadPath: nil error implies full content")
	if !rb.getFail {
		verifAssert(rb.obj.closed == 1, "ReadPath: read object closed exactly once")
	}
}

// VerifLemma_C15A_WalkReadObjects: callback and Close failures both surface.
func VerifLemma_C15A_WalkReadObjects() {
	vReset()
	rb := vNewReadBucket()
	cbFail := verifNondetBool()
	var got []byte
	err := WalkReadObjects(context.Background(), rb, "", func(ro ReadObject) error {
		b, err := io.ReadAll(ro)
		if err != nil {
			return err
		}
		got = b
		return vFail(cbFail)
	})
	verifCover("returned")
	verifAssert(!vFaultObserved || err != nil, "WalkReadObjects: an injected failure is reported")
	verifAssert(err != nil || string(got) == rb.obj.data, "WalkReadObjects: nil error implies the callback saw the content")
	if !rb.getFail {
		verifAssert(rb.obj.closed == 1, "WalkReadObjects: read object closed exactly once")
	}
}
