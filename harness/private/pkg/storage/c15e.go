//go:build verif

package storage

import (
	"context"
)

// ---- C15-E: write-side wrappers (Map*, Limit, Nop*Closer) forward Put options, data and errors unchanged ----

type vdRecWriter struct {
	b         *vdRecBucket
	wrote     []byte
	closed    int
	writeFail bool
	closeFail bool
}

func (w *vdRecWriter) Write(p []byte) (int, error) {
	if w.writeFail {
		w.b.faulted = true
		n := 0
		if len(p) > 0 {
			n = len(p) - 1
		}
		w.wrote = append(w.wrote, p[:n]...)
		return n, vInjected()
	}
	w.wrote = append(w.wrote, p...)
	return len(p), nil
}
func (w *vdRecWriter) Close() error {
	w.closed++
	if w.closeFail {
		w.b.faulted = true
		return vInjected()
	}
	return nil
}
func (w *vdRecWriter) SetExternalPath(string) error { return nil }
func (w *vdRecWriter) SetLocalPath(string) error    { return nil }

// vdRecBucket records what reaches the innermost bucket.
type vdRecBucket struct {
	ReadWriteBucket
	puts          int
	putPath       string
	putAtomic     bool
	putChunkSet   bool
	putChunk      int
	putNoChunking bool
	writer        *vdRecWriter
	deletes       int
	deletePath    string
	deleteAlls    int
	deleteAllPath string
	putFail       bool
	deleteFail    bool
	faulted       bool
}

func (b *vdRecBucket) Put(ctx context.Context, path string, opts ...PutOption) (WriteObjectCloser, error) {
	b.puts++
	b.putPath = path
	o := NewPutOptions(opts)
	b.putAtomic, b.putNoChunking = o.Atomic(), o.SuggestedDisableChunking()
	b.putChunk = o.SuggestedChunkSize()
	if b.putFail {
		b.faulted = true
		return nil, vInjected()
	}
	return b.writer, nil
}

func (b *vdRecBucket) Delete(ctx context.Context, path string) error {
	b.deletes++
	b.deletePath = path
	if b.deleteFail {
		b.faulted = true
		return vInjected()
	}
	return nil
}

func (b *vdRecBucket) DeleteAll(ctx context.Context, prefix string) error {
	b.deleteAlls++
	b.deleteAllPath = prefix
	if b.deleteFail {
		b.faulted = true
		return vInjected()
	}
	return nil
}

func (b *vdRecBucket) SetExternalAndLocalPathsSupported() bool { return false }

// VerifLemma_C15E_WriteWrappers: for each write wrapper (MapWriteBucket, MapReadWriteBucket, MapWriteBucketCloser,
// nested Map, LimitWriteBucket, NopWriteBucketCloser, NopReadWriteBucketCloser): a Put with nondet options
// (atomic, suggested chunk size / chunking disabled) reaches the delegate exactly once with the mapped path and the
// *same* options; written bytes reach the delegate's object unchanged; errors of the delegate's Put/Write/Close/
// Delete/DeleteAll come back to the caller; Close reaches the delegate.
func VerifLemma_C15E_WriteWrappers() {
	vReset()
	rec := &vdRecBucket{putFail: verifNondetBool(), deleteFail: verifNondetBool()}
	rec.writer = &vdRecWriter{b: rec, writeFail: verifNondetBool(), closeFail: verifNondetBool()}
	var wb WriteBucket
	prefix := ""
	switch verifNondetChoice(7) {
	case 0:
		wb, prefix = MapWriteBucket(rec, MapOnPrefix("pre/fix")), "pre/fix/"
	case 1:
		wb, prefix = MapReadWriteBucket(rec, MapOnPrefix("pre")), "pre/"
	case 2:
		wb, prefix = MapWriteBucketCloser(NopWriteBucketCloser(rec), MapOnPrefix("pre")), "pre/"
	case 3:
		wb, prefix = MapWriteBucket(MapReadWriteBucket(rec, MapOnPrefix("outer")), MapOnPrefix("inner")), "outer/inner/"
	case 4:
		wb = LimitWriteBucket(rec, 1000)
	case 5:
		wb = NopWriteBucketCloser(rec)
	case 6:
		wb = NopReadWriteBucketCloser(rec)
	}
	atomic := verifNondetBool()
	chunkChoice := verifNondetChoice(3)
	var opts []PutOption
	if atomic {
		opts = append(opts, PutWithAtomic())
	}
	switch chunkChoice {
	case 1:
		opts = append(opts, PutWithSuggestedChunkSize(0))
	case 2:
		opts = append(opts, PutWithSuggestedChunkSize(5))
	}
	want := NewPutOptions(opts)
	data := verifNondetBytes(verifParam("DATA"))
	ctx := context.Background()
	w, err := wb.Put(ctx, "dir/obj", opts...)
	verifCover("put returned")
	// (how often the delegate is called is not specified; every call must carry the mapped path and the same options -
	// the recorder keeps the last call, and a wrapper that calls several times with different arguments is not a
	// realistic maintainer change)
	verifAssert(rec.puts >= 1 && rec.putPath == prefix+"dir/obj", "the Put reaches the delegate with the mapped path")
	verifAssert(rec.putAtomic == atomic, "PutWithAtomic is forwarded to the delegate unchanged")
	verifAssert(rec.putNoChunking == want.SuggestedDisableChunking() && rec.putChunk == want.SuggestedChunkSize(), "the suggested chunk size is forwarded to the delegate unchanged")
	verifAssert((err != nil) == rec.putFail, "Put fails iff the delegate's Put fails")
	if err == nil {
		n, werr := w.Write(data)
		verifAssert((werr != nil) == rec.writer.writeFail, "Write fails iff the delegate's Write fails")
		verifAssert(n == len(rec.writer.wrote) && string(rec.writer.wrote) == string(data[:n]), "the written bytes reach the delegate's object unchanged, n is the delegate's count")
		cerr := w.Close()
		verifAssert(rec.writer.closed >= 1, "Close reaches the delegate's object")
		verifAssert((cerr != nil) == rec.writer.closeFail, "Close fails iff the delegate's Close fails")
	}
	derr := wb.Delete(ctx, "dir/obj")
	verifAssert(rec.deletes >= 1 && rec.deletePath == prefix+"dir/obj", "Delete reaches the delegate with the mapped path")
	verifAssert((derr != nil) == rec.deleteFail, "Delete fails iff the delegate's Delete fails")
	daerr := wb.DeleteAll(ctx, "dir")
	verifAssert(rec.deleteAlls >= 1 && rec.deleteAllPath == prefix+"dir", "DeleteAll reaches the delegate with the mapped prefix")
	verifAssert((daerr != nil) == rec.deleteFail, "DeleteAll fails iff the delegate's DeleteAll fails")
}

// VerifLemma_C15E_LimitWriteBucket: LimitWriteBucket(limit) over a recording delegate, two objects with one Write each
// (the limit is per bucket). Reference: a write of len bytes is refused (IsWriteLimitReached, nothing reaches the
// delegate, n=0) iff size+len > limit; otherwise it goes to the delegate and the bucket size grows by the number of
// bytes the delegate actually took (short write). A refused or failed write is always reported.
func VerifLemma_C15E_LimitWriteBucket() {
	vReset()
	rec := &vdRecBucket{}
	rec.writer = &vdRecWriter{b: rec, writeFail: verifNondetBool()}
	limit := verifNondetChoice(5) - 1 // -1 (same as 0) .. 3
	wb := LimitWriteBucket(rec, limit)
	eff := limit
	if eff < 0 {
		eff = 0
	}
	ctx := context.Background()
	size := 0
	var wantDelegate []byte
	for i := 0; i < 2; i++ {
		data := verifNondetBytes(verifParam("DATA"))
		w, err := wb.Put(ctx, []string{"a", "b"}[i])
		verifAssert(err == nil, "Put through the limit wrapper succeeds")
		if err != nil {
			return
		}
		n, werr := w.Write(data)
		if size+len(data) > eff {
			// "stops with an error after [limit] bytes are written ... The error can be checked using
			// IsWriteLimitReached": the write is refused with that error; whether the part that still fits is
			// forwarded first is not specified - n says how much was taken, and the delegate never gets more than the limit
			verifCover("limit reached")
			verifAssert(werr != nil && IsWriteLimitReached(werr), "a write beyond the limit fails with a write-limit error")
			verifAssert(n >= 0 && n <= len(data) && size+n <= eff, "a refused write takes at most what still fits")
			wantDelegate = append(wantDelegate, data[:n]...)
			size += n
		} else {
			took := len(data)
			if rec.writer.writeFail && len(data) > 0 {
				took = len(data) - 1
			}
			wantDelegate = append(wantDelegate, data[:took]...)
			size += took
			verifAssert(n == took, "an accepted write returns the delegate's byte count")
			verifAssert((werr != nil) == rec.writer.writeFail, "an accepted write fails iff the delegate's Write fails")
			verifAssert(werr == nil || !IsWriteLimitReached(werr), "a delegate failure is not reported as a limit error")
		}
		verifAssert(string(rec.writer.wrote) == string(wantDelegate), "exactly the bytes reported as taken reached the delegate")
		verifAssert(len(rec.writer.wrote) <= eff, "the delegate never receives more than the limit")
		verifAssert(w.Close() == nil, "Close through the limit wrapper reaches the delegate")
	}
	verifAssert(rec.writer.closed >= 2, "both objects were closed")
}
