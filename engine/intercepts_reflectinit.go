package main

import (
	"golang.org/x/tools/go/ssa"
)

// reflect.TypeFor[T]() inside a *package initialiser* (e.g. encoding/xml's `var marshalerType = reflect.TypeFor[Marshaler]()`)
// yields a nil reflect.Type so that the rest of the initialiser (plain tables such as xml's escape sequences) still
// runs. The nil type is only ever consumed by reflection-driven code, which the engine does not interpret anyway
// (reflect.TypeOf / ValueOf abort the path). Outside an initialiser the call aborts the path as before.
func init() {
	reg("reflect.TypeFor", func(in *Interp, fn *ssa.Function, args []Value) Value {
		if in.initDepth > 0 {
			return Iface{}
		}
		in.abort("reflect.TypeFor outside a package initialiser (reflection is not interpreted)")
		return nil
	})
}
