package main

import "golang.org/x/tools/go/ssa"

// bufimageutil.shallowClone[T proto.Message](message T) T (grpG, C12-C copying-mode lemmas).
//
// The real body copies every populated field of a generated message into a fresh message through protobuf
// reflection (src.Range / dst.Set), which the engine cannot run. On the generated descriptorpb structs that is a
// struct copy that shares slices and sub-message pointers with the original - exactly what loading the pointee and
// storing it into a fresh cell does here. (The real function does not carry unknown fields over; the model does.
// The harness images are built from struct literals and have none.) Native replay runs the real function.
func init() {
	reg("github.com/bufbuild/buf/private/bufpkg/bufimage/bufimageutil.shallowClone", func(in *Interp, fn *ssa.Function, args []Value) Value {
		p, ok := args[0].(Ptr)
		if !ok {
			in.abort("shallowClone: argument is %T, want a pointer to a generated message struct", args[0])
			return nil
		}
		if p.IsNil() {
			in.abort("shallowClone of a nil message")
			return nil
		}
		return Ptr{obj: in.newCell(in.load(p))}
	})
}
