package main

import "golang.org/x/tools/go/ssa"

// bufmigrate.equivalentCheckConfigInV2 creates a bufcheck client (plugin runtime, rule registry built by reflection
// over protobuf descriptors) to translate v1 rule ids/categories into v2 ones; the engine cannot run the client.
// When the package under test is bufmigrate and its harness defines verifStubBufcheckNewClient (same signature as
// bufcheck.NewClient), bufcheck.NewClient is delegated to it: the stub client's ConfiguredRules returns one
// non-deprecated rule per configured use-id, so the REAL body of equivalentCheckConfigInV2 runs (including how it
// treats switched-off configs, ignore paths, ...) and only rule-id translation is outside the C16-D claim.
// Everywhere else bufcheck.NewClient runs its real body. Natively (replay) the real client is used.
func init() {
	reg("github.com/bufbuild/buf/private/bufpkg/bufcheck.NewClient", func(in *Interp, fn *ssa.Function, args []Value) Value {
		if p := in.prog.ImportedPackage("github.com/bufbuild/buf/private/buf/bufmigrate"); p != nil {
			if stub := p.Func("verifStubBufcheckNewClient"); stub != nil {
				return in.call(stub, args, nil)
			}
		}
		in.bypass = fn
		return in.call(fn, args, nil)
	})
}
