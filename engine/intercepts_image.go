package main

import "golang.org/x/tools/go/ssa"

// Intercepts used by the C01/C10 image and workspace lemmas (grpF).
func init() {
	// slogext.DebugProfile(logger, fields...) returns a func() that logs the elapsed time at debug level.
	// Logging and timing are never the subject: the model returns a no-op func (time.Now / runtime.Callers are
	// not executable in the engine).
	reg("github.com/bufbuild/buf/private/pkg/slogext.DebugProfile", func(in *Interp, fn *ssa.Function, args []Value) Value {
		return &Closure{native: func(in *Interp, args []Value) Value { return nil }}
	})
}

// (*protocompile.Compiler).Compile: the compiler itself (lexer, goyacc tables, linker, options interpreter — all
// reflection heavy) cannot run in the engine and is outside every claim. If the package under test defines a
// harness function
//
//	func vfModelCompile(c *protocompile.Compiler, ctx context.Context, files []string) (linker.Files, error)
//
// the call is dispatched to it: the harness models the compiler's *observable protocol* (open every file of the
// closure through c.Resolver, report warnings through c.Reporter, return stub linker.Files in request order) from
// the same workspace description from which it generated the real source texts. Natively (replay, conformance) the
// real compiler runs on those texts, which validates the model. Without such a function the call aborts the path.
func init() {
	modelPkgs := []string{
		"github.com/bufbuild/buf/private/bufpkg/bufimage",
	}
	reg("(*github.com/bufbuild/protocompile.Compiler).Compile", func(in *Interp, fn *ssa.Function, args []Value) Value {
		for _, path := range modelPkgs {
			pkg := in.prog.ImportedPackage(path)
			if pkg == nil {
				continue
			}
			if model := pkg.Func("vfModelCompile"); model != nil {
				return in.call(model, args, nil)
			}
		}
		in.abort("protocompile.Compiler.Compile: no harness model (vfModelCompile) in the package under test")
		return nil
	})
}
