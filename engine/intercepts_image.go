package main

import "golang.org/x/tools/go/ssa"

// Intercepts used by the C01/C10 image and workspace lemmas (grpF).
func init() {
	// slogext.DebugProfile(logger, fields...) returns a func() that logs the elapsed time at debug level.
	// Logging and timing are never the subject: the model returns a no-op func (time.Now / runtime.Callers are
	// not executable in the engine).
	reg("github.com/bufbuild/buf/private/pkg/slogext.DebugProfile", func(in *Interp, fn *ssa.Function, args []Value) Value {
		return &Closure{native: func(in *Interp, args []Value) Value { return nil }}
	})
}
