package main

import (
	"golang.org/x/tools/go/ssa"
)

// (*strings.byteStringReplacer).Replace — the algorithm strings.NewReplacer picks when every old string is a single
// byte (e.g. escapers: "%" -> "%25", "\n" -> "%0A"). The real body indexes a [256][]byte table with each input byte,
// which forks 256 ways per symbolic byte. Model (exact): for every input byte, in order, decide which of the
// replaced bytes it equals (one fork per replaced byte that is feasible) and append that replacement, else the byte
// itself. Concrete bytes are looked up directly.
func init() {
	reg("(*strings.byteStringReplacer).Replace", func(in *Interp, fn *ssa.Function, args []Value) Value {
		r := in.ptrAgg(args[0])
		table, ok := r.e[0].(*Agg)
		if !ok || len(table.e) != 256 {
			in.abort("byteStringReplacer: unexpected replacements table %T", r.e[0])
		}
		s, ok := args[1].(Str)
		if !ok {
			in.abort("byteStringReplacer.Replace: string expected, have %T", args[1])
		}
		// replaced bytes in ascending order, with their replacements
		var olds []int
		repl := map[int][]*Term{}
		for b := 0; b < 256; b++ {
			sl, ok := table.e[b].(Slice)
			if !ok {
				in.abort("byteStringReplacer: table entry is %T", table.e[b])
			}
			if sl.arr == nil {
				continue
			}
			olds = append(olds, b)
			repl[b] = in.bytesOf(sl)
		}
		var out []*Term
		for _, c := range in.bytesOf(s) {
			if c.isC {
				if rp, ok := repl[int(c.c)]; ok {
					out = append(out, rp...)
				} else {
					out = append(out, c)
				}
				continue
			}
			hit := false
			for _, b := range olds {
				if in.decide(Eq(c, C(8, uint64(b)))) {
					out = append(out, repl[b]...)
					hit = true
					break
				}
			}
			if !hit {
				out = append(out, c)
			}
		}
		return strFromTerms(out)
	})
}
