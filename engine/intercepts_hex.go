package main

import (
	"golang.org/x/tools/go/ssa"
)

// encoding/hex.Encode(dst, src []byte) int. The real code indexes the 16-entry table "0123456789abcdef" with each
// nibble; for a symbolic byte that becomes two 16-way ite chains per byte (a shake256 digest is 64 bytes and its
// text form is hashed again, so these chains dominate the C08/C09 formulas). This model writes the same characters
// arithmetically: char(n) = n < 10 ? '0'+n : 'a'+n-10. Concrete bytes are folded by the term constructors.
// EncodeToString / AppendEncode call Encode, so they are covered as well.
func init() {
	reg("encoding/hex.Encode", func(in *Interp, fn *ssa.Function, args []Value) Value {
		dst, ok1 := args[0].(Slice)
		src, ok2 := args[1].(Slice)
		if !ok1 || !ok2 {
			in.abort("hex.Encode: slices expected, have %T, %T", args[0], args[1])
		}
		if dst.len < 2*src.len {
			in.goPanicStr("runtime error: index out of range (hex.Encode dst too short)")
		}
		hexChar := func(n *Term) *Term {
			return Ite(Bin("bvult", n, C(8, 10)), Bin("bvadd", n, C(8, '0')), Bin("bvadd", n, C(8, 'a'-10)))
		}
		for i := 0; i < src.len; i++ {
			x, ok := src.arr.e[src.off+i].(*Term)
			if !ok {
				in.abort("hex.Encode: byte term expected, have %T", src.arr.e[src.off+i])
			}
			in.setElem(dst.arr, dst.off+2*i, hexChar(Bin("bvlshr", x, C(8, 4))))
			in.setElem(dst.arr, dst.off+2*i+1, hexChar(Bin("bvand", x, C(8, 15))))
		}
		return CI(2 * src.len)
	})
}
