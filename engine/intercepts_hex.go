package main

// encoding/hex encoding of symbolic bytes (digest strings): the real code indexes the 16-entry table "0123456789abcdef"
// with a symbolic nibble, which costs one bounds query per nibble and puts 16-deep ite chains over 64-bit index
// comparisons on the assertion stack (a 64-byte digest = 128 of them; z3 4.8.12 then needs minutes per query).
// Model: the same function written arithmetically, hexchar(n) = n + (n < 10 ? '0' : 'a'-10). Concrete bytes fold.

import (
	"golang.org/x/tools/go/ssa"
)

func hexChar(n *Term) *Term { // n: 8-bit term with value 0..15
	return Bin("bvadd", n, Ite(Bin("bvult", n, C(8, 10)), C(8, '0'), C(8, 'a'-10)))
}

func hexEncodeTerms(src []*Term) []*Term {
	out := make([]*Term, 0, 2*len(src))
	for _, b := range src {
		out = append(out, hexChar(Bin("bvlshr", b, C(8, 4))), hexChar(Bin("bvand", b, C(8, 15))))
	}
	return out
}

func init() {
	reg("encoding/hex.EncodeToString", func(in *Interp, fn *ssa.Function, args []Value) Value {
		return strFromTerms(hexEncodeTerms(in.bytesOf(args[0])))
	})
	reg("encoding/hex.Encode", func(in *Interp, fn *ssa.Function, args []Value) Value {
		dst := args[0].(Slice)
		out := hexEncodeTerms(in.bytesOf(args[1]))
		if len(out) > dst.len {
			in.goPanicStr("runtime error: index out of range (hex.Encode)")
		}
		for i, t := range out {
			in.setElem(dst.arr, dst.off+i, t)
		}
		return CI(len(out))
	})
}
