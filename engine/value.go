package main

import (
	"fmt"
	"go/types"
	"strings"

	"golang.org/x/tools/go/ssa"
)

// Value is an interpreter value:
//
//	*Term (bool / integers), Float, Str, Ptr, Slice, *Agg (struct/array), *Map, *Chan,
//	*Closure, Iface, Tuple, *Iter
type Value interface{}

type Float struct{ f float64 }

type Complex struct{ c complex128 }

// Str is an immutable string of concrete length. If b == nil the string is the concrete s.
type Str struct {
	s      string
	b      []*Term
	opaque bool
	pre    string // opaque strings only: a concrete prefix the string is known to start with
}

func strOf(s string) Str { return Str{s: s} }

func (s Str) Len() int {
	if s.b != nil {
		return len(s.b)
	}
	return len(s.s)
}

func (s Str) At(i int) *Term {
	if s.b != nil {
		return s.b[i]
	}
	return C(8, uint64(s.s[i]))
}

func (s Str) IsConc() bool {
	if s.opaque {
		return false
	}
	if s.b == nil {
		return true
	}
	for _, t := range s.b {
		if !t.isC {
			return false
		}
	}
	return true
}

// Conc returns the concrete Go string; ok=false when some byte is symbolic.
func (s Str) Conc() (string, bool) {
	if s.opaque {
		return "", false
	}
	if s.b == nil {
		return s.s, true
	}
	bs := make([]byte, len(s.b))
	for i, t := range s.b {
		if !t.isC {
			return "", false
		}
		bs[i] = byte(t.c)
	}
	return string(bs), true
}

func (s Str) Slice(lo, hi int) Str {
	if s.b != nil {
		if lo == hi {
			return Str{}
		}
		return Str{b: s.b[lo:hi:hi]}
	}
	return Str{s: s.s[lo:hi]}
}

func (s Str) terms() []*Term {
	if s.b != nil {
		return s.b
	}
	r := make([]*Term, len(s.s))
	for i := 0; i < len(s.s); i++ {
		r[i] = C(8, uint64(s.s[i]))
	}
	return r
}

func strFromTerms(ts []*Term) Str {
	if len(ts) == 0 {
		return Str{}
	}
	all := true
	for _, t := range ts {
		if !t.isC {
			all = false
			break
		}
	}
	if all {
		bs := make([]byte, len(ts))
		for i, t := range ts {
			bs[i] = byte(t.c)
		}
		return Str{s: string(bs)}
	}
	return Str{b: ts}
}

func strConcat(a, b Str) Str {
	if a.opaque || b.opaque {
		pre := ""
		if a.opaque {
			pre = a.pre
		} else if c, ok := a.Conc(); ok {
			pre = c + b.pre
		}
		return Str{opaque: true, s: a.s + b.s, pre: pre}
	}
	if a.b == nil && b.b == nil {
		return Str{s: a.s + b.s}
	}
	if a.Len() == 0 {
		return b
	}
	if b.Len() == 0 {
		return a
	}
	r := make([]*Term, 0, a.Len()+b.Len())
	r = append(r, a.terms()...)
	r = append(r, b.terms()...)
	return Str{b: r}
}

func (s Str) String() string {
	if s.opaque {
		return "<opaque:" + s.s + ">"
	}
	if c, ok := s.Conc(); ok {
		return fmt.Sprintf("%q", c)
	}
	var sb strings.Builder
	sb.WriteString("\"")
	for _, t := range s.b {
		if t.isC {
			if t.c >= 32 && t.c < 127 {
				sb.WriteByte(byte(t.c))
			} else {
				fmt.Fprintf(&sb, "\\x%02x", t.c)
			}
		} else {
			sb.WriteString("{" + t.str(2) + "}")
		}
	}
	sb.WriteString("\"")
	return sb.String()
}

// Agg is a mutable aggregate: struct fields, array elements, or a 1-element cell.
type Agg struct {
	e    []Value
	pers bool // created during package initialisation (writes during a path are journaled)
}

// Ptr points to element idx of obj. nil pointer: obj == nil. fn != nil: pointer-like func value (unused).
type Ptr struct {
	obj *Agg
	idx int
}

func (p Ptr) IsNil() bool { return p.obj == nil }

type Slice struct {
	arr           *Agg
	off, len, cap int
}

type mapEnt struct {
	k, v Value
	dead bool
}

type Map struct {
	ents []*mapEnt
	idx  map[string]*mapEnt // entries with concrete keys
	sym  []*mapEnt          // entries with symbolic keys
	n    int
	pers bool
}

type Tuple []Value

type Iface struct {
	t types.Type
	v Value
}

func (i Iface) IsNil() bool { return i.t == nil }

type Closure struct {
	fn   *ssa.Function
	free []Value
	// native, if set, is called instead of fn (engine-provided function values)
	native func(in *Interp, args []Value) Value
}

type Iter struct {
	str  Str
	pos  int
	ents []*mapEnt
	isMap bool
	m     *Map              // the map being ranged (opts.nondetMapInsert only)
	known map[*mapEnt]bool  // entries already scheduled or decided against (opts.nondetMapInsert only)
}

type Chan struct {
	buf         []Value
	cap         int
	closed      bool
	sent, taken int
	recvWaiting int
	zero        Value
}

func cloneVal(v Value) Value {
	if a, ok := v.(*Agg); ok && a != nil {
		n := &Agg{e: make([]Value, len(a.e))}
		for i, x := range a.e {
			n.e[i] = cloneVal(x)
		}
		return n
	}
	return v
}

// concKey returns a canonical string for a fully concrete comparable value.
func concKey(v Value) (string, bool) {
	switch x := v.(type) {
	case *Term:
		if x.isC {
			return fmt.Sprintf("i%d:%d", x.w, x.c), true
		}
		return "", false
	case Str:
		if s, ok := x.Conc(); ok {
			return "s" + s, true
		}
		return "", false
	case Ptr:
		return fmt.Sprintf("p%p:%d", x.obj, x.idx), true
	case Float:
		return fmt.Sprintf("f%v", x.f), true
	case Iface:
		if x.t == nil {
			return "nil", true
		}
		k, ok := concKey(x.v)
		if !ok {
			return "", false
		}
		return "I" + x.t.String() + "|" + k, true
	case *Agg:
		var sb strings.Builder
		sb.WriteString("A(")
		for _, e := range x.e {
			k, ok := concKey(e)
			if !ok {
				return "", false
			}
			fmt.Fprintf(&sb, "%d:%s,", len(k), k)
		}
		sb.WriteString(")")
		return sb.String(), true
	case *Chan:
		return fmt.Sprintf("c%p", x), true
	case nil:
		return "<nil>", true
	}
	return "", false
}

func width(t types.Type) (int, bool) { // bits, signed; -1 if not int/bool
	switch b := t.Underlying().(type) {
	case *types.Basic:
		switch b.Kind() {
		case types.Bool, types.UntypedBool:
			return 0, false
		case types.Int8:
			return 8, true
		case types.Uint8:
			return 8, false
		case types.Int16:
			return 16, true
		case types.Uint16:
			return 16, false
		case types.Int32, types.UntypedRune:
			return 32, true
		case types.Uint32:
			return 32, false
		case types.Int, types.Int64, types.UntypedInt:
			return 64, true
		case types.Uint, types.Uint64, types.Uintptr:
			return 64, false
		}
	}
	return -1, false
}

func isString(t types.Type) bool {
	b, ok := t.Underlying().(*types.Basic)
	return ok && b.Info()&types.IsString != 0
}

func isFloat(t types.Type) bool {
	b, ok := t.Underlying().(*types.Basic)
	return ok && b.Info()&types.IsFloat != 0
}

func isComplex(t types.Type) bool {
	b, ok := t.Underlying().(*types.Basic)
	return ok && b.Info()&types.IsComplex != 0
}

func isUnsafePointer(t types.Type) bool {
	b, ok := t.Underlying().(*types.Basic)
	return ok && b.Kind() == types.UnsafePointer
}

// describe renders a value for samples/debugging.
func describe(v Value, depth int) string {
	if depth <= 0 {
		return "…"
	}
	switch x := v.(type) {
	case nil:
		return "nil"
	case *Term:
		return x.String()
	case Str:
		return x.String()
	case Float:
		return fmt.Sprint(x.f)
	case Ptr:
		if x.obj == nil {
			return "nil"
		}
		return "&" + describe(x.obj.e[x.idx], depth-1)
	case Slice:
		var parts []string
		for i := 0; i < x.len && i < 8; i++ {
			parts = append(parts, describe(x.arr.e[x.off+i], depth-1))
		}
		return "[" + strings.Join(parts, ",") + "]"
	case *Agg:
		var parts []string
		for i := 0; i < len(x.e) && i < 8; i++ {
			parts = append(parts, describe(x.e[i], depth-1))
		}
		return "{" + strings.Join(parts, ",") + "}"
	case Iface:
		if x.t == nil {
			return "nil"
		}
		return x.t.String() + ":" + describe(x.v, depth-1)
	case *Map:
		if x == nil {
			return "map(nil)"
		}
		return fmt.Sprintf("map(%d)", x.n)
	case *Closure:
		if x == nil {
			return "func(nil)"
		}
		if x.fn != nil {
			return "func " + x.fn.String()
		}
		return "func(native)"
	case Tuple:
		var parts []string
		for _, e := range x {
			parts = append(parts, describe(e, depth-1))
		}
		return "(" + strings.Join(parts, ",") + ")"
	}
	return fmt.Sprintf("%T", v)
}
