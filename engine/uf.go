package main

import (
	"crypto/sha256"
	"crypto/sha3"
	"fmt"
	"go/types"

	"golang.org/x/tools/go/ssa"
)

// Uninterpreted hash functions: a call with symbolic input returns fresh symbolic bytes constrained
// (Ackermann) to be functional AND collision-free with respect to every other call of the same tag on this
// path. Collision-freeness is the stated cryptographic assumption. Concrete inputs get the real digest.

type ufState struct {
	calls []ufCall
	conc  map[string]bool // concrete inputs already recorded (tag + 0 + data): a repeated concrete call adds nothing
}

type ufCall struct {
	tag string
	in  []*Term
	out []*Term
}

func realHash(tag string, n int, data []byte) []byte {
	switch tag {
	case "shake256":
		h := sha3.NewSHAKE256()
		h.Write(data)
		out := make([]byte, n)
		h.Read(out)
		return out
	case "sha256":
		s := sha256.Sum256(data)
		return s[:n]
	}
	// generic: sha256(tag || 0 || data) stretched
	var out []byte
	ctr := byte(0)
	for len(out) < n {
		h := sha256.New()
		h.Write([]byte(tag))
		h.Write([]byte{0, ctr})
		h.Write(data)
		out = h.Sum(out)
		ctr++
	}
	return out[:n]
}

func (in *Interp) hashUF(tag string, n int, data []*Term) []*Term {
	if in.uf == nil {
		in.uf = &ufState{}
	}
	conc := true
	for _, t := range data {
		if !t.isC {
			conc = false
			break
		}
	}
	var out []*Term
	if !conc {
		// A call whose input is term-for-term identical to an earlier call of the same tag returns that call's
		// output terms (functional by construction): no fresh variables, no new constraints.
		memo := map[[2]*Term]bool{}
		for _, c := range in.uf.calls {
			if c.tag != tag || len(c.in) != len(data) || len(c.out) != n {
				continue
			}
			same := true
			for i := range data {
				if !termStructEq(c.in[i], data[i], memo) {
					same = false
					break
				}
			}
			if same {
				return c.out
			}
		}
	}
	if conc {
		bs := make([]byte, len(data))
		for i, t := range data {
			bs[i] = byte(t.c)
		}
		for _, b := range realHash(tag, n, bs) {
			out = append(out, C(8, uint64(b)))
		}
		key := fmt.Sprintf("%s\x00%d\x00%s", tag, n, bs)
		if in.uf.conc == nil {
			in.uf.conc = map[string]bool{}
		}
		if in.uf.conc[key] {
			return out
		}
		in.uf.conc[key] = true
	} else {
		base := in.nvars
		in.nvars++
		for i := 0; i < n; i++ {
			name := fmt.Sprintf("h%d_%d", base, i)
			in.sol.Declare(name, 8)
			out = append(out, V(name, 8))
		}
	}
	eqAll := func(a, b []*Term) *Term {
		if len(a) != len(b) {
			return tFalse
		}
		r := tTrue
		for i := len(a) - 1; i >= 0; i-- {
			r = And(Eq(a[i], b[i]), r)
		}
		return r
	}
	for _, c := range in.uf.calls {
		if c.tag != tag {
			continue
		}
		ine := eqAll(c.in, data)
		oute := eqAll(c.out, out)
		in.assume(Eq(ine, oute))
	}
	in.uf.calls = append(in.uf.calls, ufCall{tag: tag, in: data, out: out})
	return out
}

// termStructEq reports whether two terms are structurally identical (same operators, constants and variables).
func termStructEq(a, b *Term, memo map[[2]*Term]bool) bool {
	if a == b {
		return true
	}
	if a.op != b.op || a.w != b.w || a.isC != b.isC || a.c != b.c || a.name != b.name || a.hi != b.hi || a.lo != b.lo || len(a.args) != len(b.args) {
		return false
	}
	if len(a.args) == 0 {
		return true
	}
	k := [2]*Term{a, b}
	if r, ok := memo[k]; ok {
		return r
	}
	r := true
	for i := range a.args {
		if !termStructEq(a.args[i], b.args[i], memo) {
			r = false
			break
		}
	}
	memo[k] = r
	return r
}

func init() {
	// verifHashUF(tag string, n int, data []byte) []byte
	verifAPI["verifHashUF"] = func(in *Interp, fn *ssa.Function, args []Value) Value {
		tag := in.concStr(args[0])
		n := in.concInt(args[1])
		return in.byteSlice(in.hashUF(tag, n, in.bytesOf(args[2])))
	}
	// shake256.NewDigestForContent(reader) (Digest, error): read everything through the real io.ReadAll SSA,
	// digest = UF("shake256")
	reg("github.com/bufbuild/buf/private/pkg/shake256.NewDigestForContent", func(in *Interp, fn *ssa.Function, args []Value) Value {
		iopkg := in.prog.ImportedPackage("io")
		if iopkg == nil {
			in.abort("io not loaded")
		}
		res := in.call(iopkg.Func("ReadAll"), []Value{args[0]}, nil).(Tuple)
		if err := res[1].(Iface); err.t != nil {
			return Tuple{Iface{}, err}
		}
		out := in.hashUF("shake256", 64, in.bytesOf(res[0]))
		dt := fn.Pkg.Type("digest").Type()
		a := in.newAgg(1)
		a.e[0] = in.byteSlice(out)
		return Tuple{Iface{t: types.NewPointer(dt), v: Ptr{obj: in.newCell(a)}}, Iface{}}
	})
	// crypto/sha256.New() hash.Hash -> harness-side accumulator whose Sum is UF("sha256")
	reg("crypto/sha256.New", func(in *Interp, fn *ssa.Function, args []Value) Value {
		f := in.harnessFunc("verifNewHash")
		return Iface{t: f.Signature.Results().At(0).Type(), v: in.call(f, []Value{strOf("sha256"), CI(32)}, nil)}
	})
	reg("crypto/sha256.Sum256", func(in *Interp, fn *ssa.Function, args []Value) Value {
		out := in.hashUF("sha256", 32, in.bytesOf(args[0]))
		a := in.newAgg(32)
		for i, t := range out {
			a.e[i] = t
		}
		return a
	})
}

// harnessFunc finds a function of the harness runtime in the package of the current lemma.
func (in *Interp) harnessFunc(name string) *ssa.Function {
	if in.lem != nil && in.lem.pkg != nil {
		if f := in.lem.pkg.Func(name); f != nil {
			return f
		}
	}
	in.abort("harness runtime function %s not found", name)
	return nil
}
