package main

// ufState holds the calls of uninterpreted hash functions on the current path (Ackermann constraints).
type ufState struct {
	calls []ufCall
}

type ufCall struct {
	tag string
	in  []*Term
	out []*Term
}
