package main

import (
	"encoding/hex"
	"fmt"
	"strconv"

	"golang.org/x/tools/go/ssa"
)

// NondetRec records one nondet call on a path, in call order (used to build replay files).
type NondetRec struct {
	Kind  string // bool, int, int32, byte, string, bytes, choice
	Names []string
	W     int
	Val   int64 // for choice
}

// replayValues renders the nondet calls of the current path under model m.
func replayValues(recs []NondetRec, m map[string]uint64) []string {
	var out []string
	for _, r := range recs {
		switch r.Kind {
		case "bool":
			out = append(out, fmt.Sprintf("b:%d", m[r.Names[0]]&1))
		case "int", "int32", "byte":
			out = append(out, "i:"+strconv.FormatInt(sext(m[r.Names[0]], r.W), 10))
		case "choice":
			out = append(out, "c:"+strconv.FormatInt(r.Val, 10))
		case "string", "bytes":
			bs := make([]byte, len(r.Names))
			for i, n := range r.Names {
				bs[i] = byte(m[n])
			}
			out = append(out, "s:"+hex.EncodeToString(bs))
		}
	}
	return out
}

func (in *Interp) nondetBytes(n int) []*Term {
	if in.conc != nil {
		return in.concBytes(n)
	}
	ts := make([]*Term, n)
	rec := NondetRec{Kind: "string"}
	base := in.nvars
	in.nvars++
	for i := 0; i < n; i++ {
		name := fmt.Sprintf("s%d_%d", base, i)
		in.sol.Declare(name, 8)
		ts[i] = V(name, 8)
		rec.Names = append(rec.Names, name)
	}
	in.nondets = append(in.nondets, rec)
	return ts
}

func init() {
	verifAPI["verifNondetBool"] = func(in *Interp, fn *ssa.Function, args []Value) Value {
		if in.conc != nil {
			return in.concScalar("bool", "b", 0, 0, 1)
		}
		v := in.newVar("b", 0)
		in.nondets = append(in.nondets, NondetRec{Kind: "bool", Names: []string{v.name}})
		return v
	}
	rangeInt := func(w int, kind string) interceptFn {
		return func(in *Interp, fn *ssa.Function, args []Value) Value {
			lo, hi := args[0].(*Term), args[1].(*Term)
			if in.conc != nil {
				return in.concScalar(kind, "i", w, sext(lo.c, lo.w), sext(hi.c, hi.w))
			}
			if lo.isC && hi.isC && lo.c == hi.c {
				in.nondets = append(in.nondets, NondetRec{Kind: "choice", Val: sext(lo.c, w)})
				return lo
			}
			v := in.newVar("i", w)
			in.nondets = append(in.nondets, NondetRec{Kind: kind, Names: []string{v.name}, W: w})
			c := And(Bin("bvsle", lo, v), Bin("bvsle", v, hi))
			if in.feasible(c) != "sat" {
				panic(stopPath{"empty nondet range"})
			}
			in.assume(c)
			return v
		}
	}
	verifAPI["verifNondetInt"] = rangeInt(64, "int")
	verifAPI["verifNondetInt32"] = rangeInt(32, "int32")
	verifAPI["verifNondetInt64"] = rangeInt(64, "int")
	verifAPI["verifNondetByte"] = func(in *Interp, fn *ssa.Function, args []Value) Value {
		if in.conc != nil {
			return in.concScalar("byte", "y", 8, 0, 255)
		}
		v := in.newVar("y", 8)
		in.nondets = append(in.nondets, NondetRec{Kind: "byte", Names: []string{v.name}, W: 9})
		return v
	}
	verifAPI["verifNondetChoice"] = func(in *Interp, fn *ssa.Function, args []Value) Value {
		n := in.concInt(args[0])
		k := in.choose(n)
		in.nondets = append(in.nondets, NondetRec{Kind: "choice", Val: int64(k)})
		return CI(k)
	}
	// verifNondetString(maxLen): forks on the length 0..maxLen, bytes fully symbolic.
	verifAPI["verifNondetString"] = func(in *Interp, fn *ssa.Function, args []Value) Value {
		mx := in.concInt(args[0])
		n := in.choose(mx + 1)
		return strFromTermsNZ(in.nondetBytes(n))
	}
	// verifNondetStringN(n): exactly n symbolic bytes.
	verifAPI["verifNondetStringN"] = func(in *Interp, fn *ssa.Function, args []Value) Value {
		return strFromTermsNZ(in.nondetBytes(in.concInt(args[0])))
	}
	verifAPI["verifNondetBytes"] = func(in *Interp, fn *ssa.Function, args []Value) Value {
		mx := in.concInt(args[0])
		n := in.choose(mx + 1)
		return in.byteSlice(in.nondetBytes(n))
	}
	verifAPI["verifNondetBytesN"] = func(in *Interp, fn *ssa.Function, args []Value) Value {
		return in.byteSlice(in.nondetBytes(in.concInt(args[0])))
	}
	verifAPI["verifAssume"] = func(in *Interp, fn *ssa.Function, args []Value) Value {
		c := args[0].(*Term)
		if c.isC {
			if c.c == 0 {
				panic(stopPath{"assume false"})
			}
			return nil
		}
		r := in.feasible(c)
		if r == "unsat" {
			panic(stopPath{"assume infeasible"})
		}
		if r == "unknown" {
			in.lem.noteUnknown()
		}
		in.assume(c)
		return nil
	}
	verifAPI["verifAssert"] = func(in *Interp, fn *ssa.Function, args []Value) Value {
		c := args[0].(*Term)
		label := in.concStr(args[1])
		in.asserts++
		in.lem.noteAssert(label)
		if in.conc != nil {
			if !c.isC {
				in.abort("symbolic assertion in concrete mode")
			}
			if c.c == 0 {
				in.conc.failed = append(in.conc.failed, label)
				panic(stopPath{"assertion failed"})
			}
			return nil
		}
		if c.isC {
			if c.c == 0 {
				in.reportViolation(label, nil)
				panic(stopPath{"assertion failed"})
			}
			return nil
		}
		in.lem.noteAssertQuery()
		if in.model != nil && !in.evalModel(c) {
			in.reportViolation(label, in.model)
		} else {
			in.sol.Push()
			in.sol.Assert(Not(c))
			r := in.sol.Check()
			if in.sol.record {
				in.lem.noteCrossQuery(label, r, in.sol.Transcript())
			}
			if r == "sat" {
				in.reportViolation(label, in.sol.Values(in.nondetNames()))
			} else if r == "unknown" {
				in.lem.noteUnknown()
				in.lem.noteInconclusive("solver unknown at assertion " + label)
			}
			in.sol.Pop()
		}
		// continue on the side where the assertion holds
		if in.feasible(c) != "sat" {
			panic(stopPath{"assertion fails on the whole path"})
		}
		in.assume(c)
		return nil
	}
	verifAPI["verifCover"] = func(in *Interp, fn *ssa.Function, args []Value) Value {
		in.lem.noteCover(in.concStr(args[0]))
		if in.conc != nil {
			in.conc.covers = append(in.conc.covers, in.concStr(args[0]))
		}
		return nil
	}
	verifAPI["verifParam"] = func(in *Interp, fn *ssa.Function, args []Value) Value {
		name := in.concStr(args[0])
		v, ok := in.lem.Params[name]
		if !ok {
			in.abort("unknown parameter %q", name)
		}
		return CI(v)
	}
	verifAPI["verifKnown"] = func(in *Interp, fn *ssa.Function, args []Value) Value {
		id := in.concStr(args[0])
		if !in.lem.isKnown(id) {
			return tFalse
		}
		c := args[1].(*Term)
		if in.decide(c) {
			in.lem.noteKnownHit(id)
			return tTrue
		}
		return tFalse
	}
	// verifSymbolic(x) reports whether the engine is interpreting (true) or running natively (false).
	verifAPI["verifInEngine"] = func(in *Interp, fn *ssa.Function, args []Value) Value { return tTrue }
	// verifConcretize(x int) int: forks over feasible values.
	verifAPI["verifConcretize"] = func(in *Interp, fn *ssa.Function, args []Value) Value {
		return CI(in.concInt(args[0]))
	}
}

func (in *Interp) nondetNames() []string {
	var names []string
	for _, r := range in.nondets {
		names = append(names, r.Names...)
	}
	return names
}

func (in *Interp) reportViolation(label string, model map[string]uint64) {
	if model == nil {
		// concrete failure: any model of the path condition is a witness
		if in.sol.Check() == "sat" {
			model = in.sol.Values(in.nondetNames())
		} else {
			model = map[string]uint64{}
		}
	}
	in.lem.noteViolation(label, replayValues(in.nondets, model), append([]Decision{}, in.taken...))
}
