package main

import (
	"fmt"
	"os"
	"os/exec"
	"path/filepath"
	"strings"
	"sync"
)

// crossCheck re-discharges the sampled final assertion queries of a lemma with cvc5 and z3 5.x.
// A disagreement (sat vs unsat) makes the lemma inconclusive.
func (l *LemmaRun) crossCheck() {
	if len(l.Cross) == 0 {
		return
	}
	tmp, err := os.MkdirTemp("", "gosym-cross-")
	if err != nil {
		return
	}
	defer os.RemoveAll(tmp)
	l.CrossOther = map[string]int{}
	type job struct {
		i      int
		solver string
	}
	solvers := [][]string{{"cvc5", "--lang=smt2", "--tlimit=20000"}, {"z3-new", "-smt2", "-T:20"}}
	var mu sync.Mutex
	var wg sync.WaitGroup
	sem := make(chan struct{}, 16)
	for i := range l.Cross {
		l.Cross[i].Other = map[string]string{}
		path := filepath.Join(tmp, fmt.Sprintf("q%d.smt2", i))
		body := "(set-logic QF_BV)\n" + strings.Join(l.Cross[i].Script, "\n") + "\n"
		os.WriteFile(path, []byte(body), 0o644)
		for _, sv := range solvers {
			wg.Add(1)
			go func(i int, sv []string, path string) {
				defer wg.Done()
				sem <- struct{}{}
				defer func() { <-sem }()
				out, _ := exec.Command(sv[0], append(sv[1:], path)...).CombinedOutput()
				res := "unknown"
				for _, line := range strings.Split(string(out), "\n") {
					line = strings.TrimSpace(line)
					if line == "sat" || line == "unsat" {
						res = line
					}
					if strings.HasPrefix(line, "(error") {
						res = "error"
						break
					}
				}
				mu.Lock()
				l.Cross[i].Other[sv[0]] = res
				mu.Unlock()
			}(i, sv, path)
		}
	}
	wg.Wait()
	for _, q := range l.Cross {
		for sv, r := range q.Other {
			l.CrossOther[sv+":"+r]++
			if (r == "sat" || r == "unsat") && (q.Z3 == "sat" || q.Z3 == "unsat") {
				if r == q.Z3 {
					l.CrossAgree++
				} else {
					l.CrossDisagree++
					l.Inconcl[fmt.Sprintf("solver disagreement at %q: z3=%s %s=%s", q.Label, q.Z3, sv, r)]++
				}
			}
		}
	}
}
