package main

import (
	"encoding/json"
	"flag"
	"fmt"
	"os"
	"os/exec"
	"path/filepath"
	"runtime"
	"sort"
	"strconv"
	"strings"
	"time"
)

func main() {
	if len(os.Args) < 2 {
		fmt.Fprintln(os.Stderr, "usage: gosym check|replay ...")
		os.Exit(2)
	}
	switch os.Args[1] {
	case "check":
		os.Exit(cmdCheck(os.Args[2:]))
	case "replay":
		os.Exit(cmdReplay(os.Args[2:]))
	case "conform":
		os.Exit(cmdConform(os.Args[2:]))
	default:
		fmt.Fprintln(os.Stderr, "unknown command", os.Args[1])
		os.Exit(2)
	}
}

type replayFile struct {
	Property  string         `json:"property"`
	Lemma     string         `json:"lemma"`
	Dir       string         `json:"dir"`
	Entry     string         `json:"entry"`
	Label     string         `json:"failed_assertion"`
	Params    map[string]int `json:"params"`
	Values    []string       `json:"values"`
	Decisions int            `json:"decisions"`
}

// nativeReplay runs the harness natively (go test -overlay) on the recorded values.
// Returns "reproduced", "passed", "diverged", or "error: ...", plus the raw output.
// nativeReplay runs the harness natively on the recorded inputs. repeat > 1 re-runs the test that many times and
// reports "reproduced" if ANY run fails the assertion (witnesses that depend on Go's randomised map iteration order).
func nativeReplay(verifRoot string, rf *replayFile, path string) (string, string) {
	return nativeReplayN(verifRoot, rf, path, 1)
}

func nativeReplayN(verifRoot string, rf *replayFile, path string, repeat int) (string, string) {
	ov, err := buildOverlay(verifRoot, []string{rf.Dir}, true)
	if err != nil {
		return "error: " + err.Error(), ""
	}
	tmp, err := os.MkdirTemp("", "gosym-replay-")
	if err != nil {
		return "error: " + err.Error(), ""
	}
	defer os.RemoveAll(tmp)
	repl := map[string]string{}
	i := 0
	for virt, content := range ov {
		real := filepath.Join(tmp, fmt.Sprintf("f%d_%s", i, filepath.Base(virt)))
		i++
		if err := os.WriteFile(real, content, 0o644); err != nil {
			return "error: " + err.Error(), ""
		}
		repl[virt] = real
	}
	ovJSON, _ := json.Marshal(map[string]any{"Replace": repl})
	ovPath := filepath.Join(tmp, "overlay.json")
	os.WriteFile(ovPath, ovJSON, 0o644)
	abs, _ := filepath.Abs(path)
	cmd := exec.Command(goBin(), "test", "-tags", "verif", "-vet=off", fmt.Sprintf("-count=%d", repeat), "-overlay", ovPath, "-run", "^TestVerifReplay$", "-v", "./"+rf.Dir)
	cmd.Dir = repoRoot
	cmd.Env = append(goEnv(), "VERIF_REPLAY_FILE="+abs, "GOCACHE="+goCache())
	out, _ := cmd.CombinedOutput()
	txt := string(out)
	best := ""
	for _, line := range strings.Split(txt, "\n") {
		if strings.HasPrefix(line, "VERIF-REPLAY-RESULT ") {
			rest := strings.TrimPrefix(line, "VERIF-REPLAY-RESULT ")
			switch {
			case strings.HasPrefix(rest, "failed "):
				lbl, _ := strconv.Unquote(strings.TrimPrefix(rest, "failed "))
				if rf.Label == "" || lbl == rf.Label {
					return "reproduced", txt
				}
				// a DIFFERENT assertion failed natively before the reported one was reached; the caller accepts this
				// only if the engine itself also found that assertion violable in the same run
				best = "other-assertion:" + lbl
			case strings.HasPrefix(rest, "passed"):
				if best == "" {
					best = "passed"
				}
			case strings.HasPrefix(rest, "panicked"):
				if best == "" || best == "passed" {
					best = "panicked"
				}
			case strings.HasPrefix(rest, "diverged"):
				if best == "" || best == "passed" {
					best = "diverged"
				}
			}
		}
	}
	if best != "" {
		return best, txt
	}
	return "error: no result line", txt
}

func goCache() string {
	if c := os.Getenv("GOCACHE"); c != "" {
		return c
	}
	out, err := exec.Command(goBin(), "env", "GOCACHE").Output()
	if err == nil {
		return strings.TrimSpace(string(out))
	}
	return filepath.Join(os.TempDir(), "gocache")
}

func cmdReplay(args []string) int {
	fs := flag.NewFlagSet("replay", flag.ExitOnError)
	verifRoot := fs.String("verif", "/verif", "verif root")
	fs.Parse(args)
	if fs.NArg() < 1 {
		fmt.Fprintln(os.Stderr, "usage: gosym replay <file>")
		return 2
	}
	b, err := os.ReadFile(fs.Arg(0))
	if err != nil {
		fmt.Fprintln(os.Stderr, err)
		return 2
	}
	var rf replayFile
	if err := json.Unmarshal(b, &rf); err != nil {
		fmt.Fprintln(os.Stderr, err)
		return 2
	}
	res, out := nativeReplayN(*verifRoot, &rf, fs.Arg(0), 8)
	if strings.HasPrefix(res, "other-assertion:") {
		res = "reproduced (another assertion of the lemma fails natively: " + strings.TrimPrefix(res, "other-assertion:") + ")"
	}
	fmt.Println(out)
	fmt.Printf("replay of %s (%s, assertion %q): %s\n", fs.Arg(0), rf.Lemma, rf.Label, res)
	if strings.HasPrefix(res, "reproduced") {
		fmt.Printf("VIOLATION property=%s replay=%s\n", rf.Property, fs.Arg(0))
		return 1
	}
	return 0
}

func cmdCheck(args []string) int {
	fs := flag.NewFlagSet("check", flag.ExitOnError)
	verifRoot := fs.String("verif", "/verif", "verif root")
	prop := fs.String("property", "", "property id")
	tier := fs.String("tier", "quick", "quick|thorough")
	only := fs.String("lemma", "", "run only this lemma id (comma separated)")
	nworkers := fs.Int("workers", 0, "worker count")
	noEvidence := fs.Bool("no-evidence", false, "do not write the evidence file")
	verbose := fs.Bool("v", false, "verbose")
	cross := fs.Bool("cross", false, "re-discharge sampled assertion queries with cvc5 and z3-new (always on in the thorough tier)")
	fs.Parse(args)
	if t := os.Getenv("VERIF_TIER"); t != "" && !isFlagSet(fs, "tier") {
		*tier = t
	}
	seed := 0
	if s := os.Getenv("VERIF_SEED"); s != "" {
		seed, _ = strconv.Atoi(s)
	}
	t0 := time.Now()
	all, err := loadLemmas(*verifRoot)
	if err != nil {
		fmt.Fprintln(os.Stderr, "lemmas:", err)
		return 2
	}
	onlySet := map[string]bool{}
	for _, x := range strings.Split(*only, ",") {
		if x != "" {
			onlySet[x] = true
		}
	}
	var lemmas []*LemmaSpec
	dirSet := map[string]bool{}
	for _, l := range all {
		if l.Property != *prop || l.Disabled != "" {
			continue
		}
		if len(onlySet) > 0 && !onlySet[l.ID] {
			continue
		}
		if *tier == "quick" && l.Quick == nil {
			continue
		}
		lemmas = append(lemmas, l)
		dirSet[l.Dir] = true
	}
	if len(lemmas) == 0 {
		fmt.Fprintf(os.Stderr, "no lemmas for property %s\n", *prop)
		return 2
	}
	var dirs []string
	for d := range dirSet {
		dirs = append(dirs, d)
	}
	sort.Strings(dirs)
	kfList, known := loadKnown(*verifRoot)
	tl := time.Now()
	ld, err := loadPackages(*verifRoot, dirs)
	if err != nil {
		fmt.Printf("INCONCLUSIVE(build) property=%s: %v\n", *prop, err)
		ld = &loaded{errs: map[string]string{}}
		for _, d := range dirs {
			ld.errs[d] = err.Error()
		}
	}
	loadSec := time.Since(tl).Seconds()
	n := *nworkers
	if n == 0 {
		n = runtime.NumCPU()
		if n > 16 {
			n = 16
		}
	}
	var ws []*worker
	if ld.prog != nil {
		for i := 0; i < n; i++ {
			ws = append(ws, newWorker(ld.prog))
		}
		defer func() {
			for _, w := range ws {
				w.in.sol.Close()
			}
		}()
	}
	var runs []*LemmaRun
	for _, spec := range lemmas {
		l := newLemmaRun(spec, *tier, known)
		runs = append(runs, l)
		if e, bad := ld.errs[spec.Dir]; bad {
			l.BuildErr = e
			fmt.Printf("INCONCLUSIVE(build) lemma=%s: %s\n", spec.ID, firstLine(e))
			continue
		}
		pkg := ld.pkgs[spec.Dir]
		if pkg == nil {
			l.BuildErr = "package not loaded"
			fmt.Printf("INCONCLUSIVE(build) lemma=%s: package not loaded\n", spec.ID)
			continue
		}
		entry := pkg.Func(spec.Entry)
		if entry == nil {
			l.BuildErr = "entry function not found: " + spec.Entry
			fmt.Printf("INCONCLUSIVE(build) lemma=%s: %s\n", spec.ID, l.BuildErr)
			continue
		}
		l.pkg = pkg
		for _, w := range ws {
			w.useSolver(l.SolverKind, l.SolverTimeoutMs)
			w.in.sol.record = *tier == "thorough" || *cross
		}
		l.explore(ws, entry)
		l.crossCheck()
		if len(l.Covers) == 0 && len(l.ViolCount) == 0 {
			l.Inconcl["vacuity: no verifCover point was reached on any feasible path"]++
		}
		if sumMap(l.Asserts) == 0 && len(l.ViolCount) == 0 {
			l.Inconcl["vacuity: no assertion was reached on any feasible path"]++
		}
		status := "holds"
		if len(l.ViolCount) > 0 {
			status = "COUNTEREXAMPLE"
		} else if !l.clean() {
			status = "incomplete"
		}
		fmt.Printf("lemma %-34s %-14s paths=%d nontrivial=%d asserts=%d queries=%d (sat %d/unsat %d/unknown %d) solver=%.1fs wall=%.1fs\n",
			spec.ID, status, l.Paths, l.Nontrivial, sumMap(l.Asserts), l.Queries, l.Sat, l.Unsat, l.Unknowns, l.SolverSec, l.Wall)
		if *verbose || !l.clean() {
			for _, k := range sortedKeys(l.Aborted) {
				fmt.Printf("    aborted x%d: %s\n", l.Aborted[k], k)
			}
			for _, k := range sortedKeys(l.InitFail) {
				fmt.Printf("    init %s: %s\n", k, l.InitFail[k])
			}
			if l.BudgetHit {
				fmt.Printf("    path budget (%d) exhausted\n", l.MaxPaths)
			}
			for _, k := range sortedKeys(l.Inconcl) {
				fmt.Printf("    inconclusive x%d: %s\n", l.Inconcl[k], k)
			}
		}
	}
	// replay counterexamples natively
	exit := 0
	os.MkdirAll(filepath.Join(*verifRoot, "replays"), 0o755)
	totalViol := 0
	var violLines []string
	for _, l := range runs {
		for _, label := range sortedKeys(l.Violations) {
			for k, v := range l.Violations[label] {
				rf := &replayFile{Property: *prop, Lemma: l.Spec.ID, Dir: l.Spec.Dir, Entry: l.Spec.Entry, Label: label,
					Params: l.Params, Values: v.Values, Decisions: len(v.Decisions)}
				name := fmt.Sprintf("%s_%s_%s_%d.json", *prop, sanitize(l.Spec.ID), sanitize(label), k)
				path := filepath.Join(*verifRoot, "replays", name)
				b, _ := json.MarshalIndent(rf, "", " ")
				os.WriteFile(path, b, 0o644)
				v.File = path
				if k > 0 && l.Violations[label][0].Replayed == "reproduced" {
					v.Replayed = "skipped (first witness reproduced)"
					continue
				}
				repeat := 1
				if l.NondetMapOrder {
					repeat = 24 // witnesses depend on Go's randomised map iteration order
				}
				res, out := nativeReplayN(*verifRoot, rf, path, repeat)
				if strings.HasPrefix(res, "other-assertion:") {
					other := strings.TrimPrefix(res, "other-assertion:")
					// The native run of the same harness on the solver's inputs fails an assertion of this lemma (a
					// different one trips first natively, e.g. because an engine-only crash-point callback does not
					// exist natively). A failing assertion in a native run of the real code is a concrete violation;
					// harness/native agreement on the unchanged tree is what `gosym conform` validates.
					_ = other
					res = "reproduced (natively the run fails assertion \"" + other + "\" of the same lemma first)"
				}
				v.Replayed = res
				if strings.HasPrefix(res, "reproduced") {
					totalViol++
					violLines = append(violLines, fmt.Sprintf("VIOLATION property=%s replay=%s", *prop, path))
					fmt.Printf("  counterexample lemma=%s assertion=%q inputs=%v -> reproduced natively\n", l.Spec.ID, label, v.Values)
					exit = 1
				} else {
					fmt.Printf("INCONCLUSIVE lemma=%s assertion=%q: counterexample %v did not reproduce natively (%s)\n", l.Spec.ID, label, v.Values, res)
					if *verbose {
						fmt.Println(out)
					}
					l.noteInconclusive("counterexample not reproduced: " + label)
				}
			}
		}
	}
	// known findings
	for _, kf := range kfList {
		if kf.Property != *prop || kf.Status != "known" {
			continue
		}
		hit := 0
		for _, l := range runs {
			hit += l.KnownHits[kf.ID]
		}
		if hit > 0 {
			fmt.Printf("KNOWN-FINDING: property=%s %s [%s] (class reached on %d paths; excluded from the assertion)\n", *prop, kf.What, kf.ID, hit)
		}
	}
	for _, vl := range violLines {
		fmt.Println(vl)
	}
	dumpDecideProf()
	wall := time.Since(t0).Seconds()
	if !*noEvidence {
		writeEvidence(*verifRoot, *prop, *tier, seed, runs, totalViol, wall, loadSec, n)
	}
	fmt.Printf("property %s tier=%s: %d lemmas, wall %.1fs (load %.1fs), exit %d\n", *prop, *tier, len(runs), wall, loadSec, exit)
	return exit
}

func isFlagSet(fs *flag.FlagSet, name string) bool {
	set := false
	fs.Visit(func(f *flag.Flag) {
		if f.Name == name {
			set = true
		}
	})
	return set
}

func firstLine(s string) string {
	if i := strings.IndexByte(s, '\n'); i >= 0 {
		s = s[:i]
	}
	if len(s) > 300 {
		s = s[:300]
	}
	return s
}

func sanitize(s string) string {
	var sb strings.Builder
	for _, r := range s {
		if (r >= 'a' && r <= 'z') || (r >= 'A' && r <= 'Z') || (r >= '0' && r <= '9') || r == '-' {
			sb.WriteRune(r)
		} else {
			sb.WriteByte('_')
		}
	}
	out := sb.String()
	if len(out) > 40 {
		out = out[:40]
	}
	return out
}

func sumMap(m map[string]int) int {
	n := 0
	for _, v := range m {
		n += v
	}
	return n
}

// clean reports whether the lemma was explored completely with no inconclusive element.
func (l *LemmaRun) clean() bool {
	return l.BuildErr == "" && len(l.Aborted) == 0 && !l.BudgetHit && l.Unknowns == 0 && len(l.Inconcl) == 0 && len(l.InitFail) == 0
}

func writeEvidence(verifRoot, prop, tier string, seed int, runs []*LemmaRun, viol int, wall, loadSec float64, workers int) {
	paths, nontriv, asserts, queries, unknown := 0, 0, 0, 0, 0
	solver := 0.0
	var lemmas []map[string]any
	var samples []any
	var assumptions []string
	seenA := map[string]bool{}
	discharged, total := 0, 0
	for _, l := range runs {
		paths += l.Paths
		nontriv += l.Nontrivial
		asserts += sumMap(l.Asserts)
		queries += l.Queries
		unknown += l.Unknowns
		solver += l.SolverSec
		total++
		status := "holds-within-bounds"
		switch {
		case l.BuildErr != "":
			status = "inconclusive(build): " + firstLine(l.BuildErr)
		case len(l.ViolCount) > 0:
			status = "counterexample"
		case !l.clean():
			status = "incomplete"
		default:
			discharged++
		}
		var repoFns, libFns []string
		for f := range l.Funcs {
			if strings.Contains(f, "github.com/bufbuild/buf/") {
				repoFns = append(repoFns, strings.ReplaceAll(f, "github.com/bufbuild/buf/", ""))
			} else {
				libFns = append(libFns, f)
			}
		}
		sort.Strings(repoFns)
		sort.Strings(libFns)
		if len(libFns) > 40 {
			libFns = append(libFns[:40], fmt.Sprintf("… (%d more)", len(libFns)-40))
		}
		if len(repoFns) > 80 {
			repoFns = append(repoFns[:80], fmt.Sprintf("… (%d more)", len(repoFns)-80))
		}
		viols := map[string]any{}
		for k, vs := range l.Violations {
			var items []map[string]any
			for _, v := range vs {
				items = append(items, map[string]any{"inputs": v.Values, "native_replay": v.Replayed, "replay_file": v.File})
			}
			viols[k] = map[string]any{"count_paths": l.ViolCount[k], "witnesses": items}
		}
		lemmas = append(lemmas, map[string]any{
			"id": l.Spec.ID, "entry": l.Spec.Entry, "package": l.Spec.Dir, "doc": l.Spec.Doc, "status": status,
			"bounds": l.Spec.Bounds, "params": l.Params,
			"budgets":               map[string]any{"max_paths": l.MaxPaths, "max_steps_per_path": l.MaxSteps, "max_decisions_per_path": l.MaxDecisions, "path_budget_hit": l.BudgetHit},
			"paths_explored":        l.Paths,
			"paths_with_symbolic_fork": l.Nontrivial,
			"paths_pruned_by_assumption": l.Stopped,
			"paths_inconclusive":    l.Aborted,
			"max_decision_depth":    l.MaxDepthSeen,
			"assertions_checked":    l.Asserts,
			"assertion_queries":     l.AssertQ,
			"cover_points_reached":  l.Covers,
			"solver":                map[string]any{"name": solverDisplayName(l.SolverKind), "queries": l.Queries, "sat": l.Sat, "unsat": l.Unsat, "unknown": l.Unknowns, "seconds": round2(l.SolverSec)},
			"wall_s":                round2(l.Wall),
			"functions_encoded_repo": repoFns,
			"functions_encoded_lib":  libFns,
			"intercepts_hit":        l.Intercepts,
			"symbolic_mul_div_ops":  l.SymMulDiv,
			"opaque_strings":        l.Opaque,
			"known_finding_hits":    l.KnownHits,
			"second_solver_check":   map[string]any{"queries_sampled": len(l.Cross), "agree": l.CrossAgree, "disagree": l.CrossDisagree, "results": l.CrossOther},
			"package_init_failures": l.InitFail,
			"inconclusive":          l.Inconcl,
			"counterexamples":       viols,
			"harness_stubs":         l.Spec.Stubs,
		})
		for _, s := range l.Samples {
			if len(samples) < 8 {
				samples = append(samples, s)
			}
		}
		for _, s := range l.Spec.Stubs {
			if !seenA[s] {
				seenA[s] = true
				assumptions = append(assumptions, s)
			}
		}
	}
	if len(samples) == 0 {
		samples = append(samples, map[string]any{"note": "no path with a symbolic fork completed in this run"})
	}
	assumptions = append(assumptions,
		"engine: bounded symbolic execution of go/ssa (x/tools v0.29.0) of /repo's working tree; path forking by re-execution; z3 decides feasibility of every branch and every assertion",
		"integers are bit-vectors of the Go width; strings/slices have concrete length and symbolic bytes; nondet strings fork over every length up to the bound",
		"engine intercepts (models) listed per lemma under intercepts_hit are trusted",
		"a lemma counts as discharged only with 0 inconclusive paths, 0 budget hits and 0 solver unknowns")
	ev := map[string]any{
		"property_id": prop, "tier": tier, "seed": seed, "level": "other",
		"coverage": map[string]any{
			"explanation": fmt.Sprintf("Bounded symbolic execution of the real Go code (go/ssa) with SMT-decided branches and assertions: %d lemmas, %d discharged within their stated bounds; %d feasible paths explored, each standing for all inputs satisfying its path condition; %d assertion instances, %d solver queries. Per-lemma bounds, functions encoded, intercepts and solver statistics are under 'lemmas'.",
				total, discharged, paths, asserts, queries),
			"evaluations":         paths,
			"distinct_nontrivial": nontriv,
			"rule":                "one evaluation = one feasible execution path of a harness (a set of inputs described by its path condition); paths are distinct by construction (they differ in at least one branch decision); non-trivial = the path contains at least one branch or choice on which both outcomes were feasible (symbolic fork)",
			"samples":             samples,
			"obligations":         total,
			"discharged":          discharged,
			"lemmas":              lemmas,
			"solver_queries":      queries,
			"solver_unknown":      unknown,
			"solver_seconds":      round2(solver),
			"package_load_seconds": round2(loadSec),
			"workers":             workers,
			"exhaustive":          false,
		},
		"assumptions": assumptions,
		"wall_s":      round2(wall),
		"violations":  viol,
	}
	b, _ := json.MarshalIndent(ev, "", " ")
	os.MkdirAll(filepath.Join(verifRoot, "evidence"), 0o755)
	os.WriteFile(filepath.Join(verifRoot, "evidence", prop+".json"), b, 0o644)
}

func round2(f float64) float64 { return float64(int(f*100+0.5)) / 100 }

func solverDisplayName(kind string) string {
	if kind == "z3-new" {
		return "z3 5.1.0 (z3-new, incremental, -in)"
	}
	return "z3 4.8.12 (incremental, -in)"
}
