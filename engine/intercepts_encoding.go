package main

// Identity codec for the repo's private/pkg/encoding package (DESIGN.md §2.3).
//
// yaml.v3 and encoding/json are reflection based and cannot be interpreted. The YAML/JSON *text* is therefore
// outside every claim; what is modelled is the data-model round trip:
//
//   - MarshalYAML(v) walks v by its static type and builds a *tagged tree* (map / seq / scalar / null nodes, map keys
//     taken from the `yaml:"…"` tags, `omitempty`/`inline`/"-" honoured), stores the tree in a per-path side table
//     and returns an opaque token ([]byte "\x00verif-enc:<id>\x00").
//   - Unmarshal{YAML,JSON,JSONOrYAML}{Strict,NonStrict}(data, &target) looks the token up and decodes the tree into
//     the target by the target's own tags (yaml or json flavour): struct <- map by key, slice <- seq, map <- map,
//     pointer <- allocation, scalar <- scalar of the same kind, `any` <- generic value (map[string]any, []any, string,
//     int, bool, nil) exactly like yaml.v3 does. Strict = unknown map key for a struct target is an error.
//   - empty data is a no-op (as in the real functions); data that is not a token (corrupted / truncated / arbitrary
//     bytes) fails to parse (error). A harness that wants "any parseable document" marshals a nondet struct.
//
// Shared by C09 (module.yaml of the module cache) and C16 (configuration round trips). Extend here, do not duplicate.

import (
	"fmt"
	"go/types"
	"reflect"
	"strconv"
	"strings"

	"golang.org/x/tools/go/ssa"
)

type encKind int

const (
	encNull encKind = iota
	encScalar
	encSeq
	encMap
)

type encNode struct {
	kind  encKind
	val   Value      // scalar: Str, *Term or Float
	vt    types.Type // scalar: basic type the value was marshalled from
	elems []*encNode // seq
	keys  []*encNode // map (scalar nodes)
	vals  []*encNode // map
}

const encTokenPrefix = "\x00verif-enc:"

type encFlavor string

const (
	flavYAML encFlavor = "yaml"
	flavJSON encFlavor = "json"
)

type encField struct {
	idx       int
	key       string
	omitEmpty bool
	inline    bool
	typ       types.Type
}

// encFields lists the encodable fields of a struct type for a flavour.
func (in *Interp) encFields(st *types.Struct, flav encFlavor) []encField {
	var out []encField
	for i := 0; i < st.NumFields(); i++ {
		f := st.Field(i)
		tag := reflect.StructTag(st.Tag(i)).Get(string(flav))
		if tag == "-" {
			continue
		}
		parts := strings.Split(tag, ",")
		ef := encField{idx: i, typ: f.Type(), key: parts[0]}
		for _, p := range parts[1:] {
			switch p {
			case "omitempty":
				ef.omitEmpty = true
			case "inline":
				ef.inline = true
			case "flow", "string", "omitzero":
			default:
				in.abort("encoding codec: unsupported struct tag option %q on %s", p, f.Name())
			}
		}
		if !f.Exported() {
			continue
		}
		if f.Embedded() && ef.key == "" {
			if flav == flavJSON {
				if _, isStruct := f.Type().Underlying().(*types.Struct); isStruct {
					ef.inline = true
				}
			} else if !ef.inline {
				in.abort("encoding codec: embedded field %s without inline tag", f.Name())
			}
		}
		if ef.key == "" && !ef.inline {
			if flav == flavYAML {
				ef.key = strings.ToLower(f.Name())
			} else {
				ef.key = f.Name()
			}
		}
		out = append(out, ef)
	}
	return out
}

func (in *Interp) encHasCustomCodec(t types.Type) bool {
	for _, m := range []string{"MarshalYAML", "UnmarshalYAML", "MarshalJSON", "UnmarshalJSON", "MarshalText", "UnmarshalText"} {
		if in.hasMethod(t, m) || in.hasMethod(types.NewPointer(t), m) {
			return true
		}
	}
	return false
}

// isTimeType: time.Time is carried through the codec as an opaque scalar (its text form is outside the claim).
func isTimeType(t types.Type) bool {
	n, ok := t.(*types.Named)
	return ok && n.Obj().Pkg() != nil && n.Obj().Pkg().Path() == "time" && n.Obj().Name() == "Time"
}

// encIsEmpty: the omitempty test (yaml.v3 semantics; for JSON structs are never empty).
func (in *Interp) encIsEmpty(v Value, t types.Type, flav encFlavor) bool {
	if isTimeType(t) {
		if flav == flavJSON {
			return false
		}
		a := v.(*Agg) // Time{wall uint64, ext int64, loc *Location}: IsZero() <=> sec()==0 && nsec()==0; modelled as all-zero
		w, e := a.e[0].(*Term), a.e[1].(*Term)
		return in.decide(And(Eq(w, C(w.w, 0)), Eq(e, C(e.w, 0))))
	}
	switch u := t.Underlying().(type) {
	case *types.Basic:
		switch x := v.(type) {
		case Str:
			return x.Len() == 0
		case *Term:
			if x.w == 0 {
				return !in.decide(x)
			}
			return in.decide(Eq(x, C(x.w, 0)))
		case Float:
			return x.f == 0
		}
		return v == nil
	case *types.Pointer:
		return v.(Ptr).IsNil()
	case *types.Interface:
		return v.(Iface).IsNil()
	case *types.Slice:
		return v.(Slice).len == 0
	case *types.Map:
		m, _ := v.(*Map)
		return m == nil || m.n == 0
	case *types.Array:
		return u.Len() == 0
	case *types.Struct:
		if flav == flavJSON {
			return false
		}
		a := v.(*Agg)
		for i := 0; i < u.NumFields(); i++ {
			if !u.Field(i).Exported() {
				continue
			}
			if !in.encIsEmpty(a.e[i], u.Field(i).Type(), flav) {
				return false
			}
		}
		return true
	}
	return false
}

// encTree builds the tagged tree of v (static type t).
func (in *Interp) encTree(v Value, t types.Type, flav encFlavor) *encNode {
	if isTimeType(t) {
		return &encNode{kind: encScalar, val: cloneVal(v), vt: t}
	}
	if _, isI := t.Underlying().(*types.Interface); !isI && in.encHasCustomCodec(t) {
		in.abort("encoding codec: type %s has a custom (un)marshaller", t)
	}
	switch u := t.Underlying().(type) {
	case *types.Basic:
		if u.Kind() == types.UnsafePointer {
			in.abort("encoding codec: unsafe.Pointer")
		}
		return &encNode{kind: encScalar, val: v, vt: u}
	case *types.Pointer:
		p := v.(Ptr)
		if p.IsNil() {
			return &encNode{kind: encNull}
		}
		return in.encTree(p.obj.e[p.idx], u.Elem(), flav)
	case *types.Interface:
		ifc := v.(Iface)
		if ifc.IsNil() {
			return &encNode{kind: encNull}
		}
		return in.encTree(ifc.v, ifc.t, flav)
	case *types.Slice:
		s := v.(Slice)
		if s.arr == nil {
			if flav == flavJSON {
				return &encNode{kind: encNull}
			}
			return &encNode{kind: encSeq}
		}
		if b, ok := u.Elem().Underlying().(*types.Basic); ok && b.Kind() == types.Uint8 && flav == flavJSON {
			in.abort("encoding codec: []byte in JSON (base64) not modelled")
		}
		n := &encNode{kind: encSeq}
		for i := 0; i < s.len; i++ {
			n.elems = append(n.elems, in.encTree(s.arr.e[s.off+i], u.Elem(), flav))
		}
		return n
	case *types.Array:
		a := v.(*Agg)
		n := &encNode{kind: encSeq}
		for i := range a.e {
			n.elems = append(n.elems, in.encTree(a.e[i], u.Elem(), flav))
		}
		return n
	case *types.Map:
		m, _ := v.(*Map)
		if m == nil {
			if flav == flavJSON {
				return &encNode{kind: encNull}
			}
			return &encNode{kind: encMap}
		}
		n := &encNode{kind: encMap}
		for _, e := range m.ents {
			if e.dead {
				continue
			}
			n.keys = append(n.keys, in.encTree(e.k, u.Key(), flav))
			n.vals = append(n.vals, in.encTree(e.v, u.Elem(), flav))
		}
		return n
	case *types.Struct:
		a := v.(*Agg)
		n := &encNode{kind: encMap}
		in.encStructInto(n, a, u, flav)
		return n
	}
	in.abort("encoding codec: cannot marshal type %s", t)
	return nil
}

func (in *Interp) encStructInto(n *encNode, a *Agg, st *types.Struct, flav encFlavor) {
	for _, f := range in.encFields(st, flav) {
		fv := a.e[f.idx]
		if f.inline {
			switch fu := f.typ.Underlying().(type) {
			case *types.Struct:
				in.encStructInto(n, fv.(*Agg), fu, flav)
			case *types.Map:
				sub := in.encTree(fv, f.typ, flav)
				n.keys = append(n.keys, sub.keys...)
				n.vals = append(n.vals, sub.vals...)
			default:
				in.abort("encoding codec: inline field of type %s", f.typ)
			}
			continue
		}
		if f.omitEmpty && in.encIsEmpty(fv, f.typ, flav) {
			continue
		}
		n.keys = append(n.keys, &encNode{kind: encScalar, val: strOf(f.key), vt: types.Typ[types.String]})
		n.vals = append(n.vals, in.encTree(fv, f.typ, flav))
	}
}

// ---- decoding ----

type encErr struct{ msg string }

func encFail(format string, a ...any) { panic(encErr{fmt.Sprintf(format, a...)}) }

func basicClass(t types.Type) string {
	b, ok := t.Underlying().(*types.Basic)
	if !ok {
		return ""
	}
	switch {
	case b.Info()&types.IsString != 0:
		return "string"
	case b.Info()&types.IsBoolean != 0:
		return "bool"
	case b.Info()&types.IsInteger != 0:
		return "int"
	case b.Info()&types.IsFloat != 0:
		return "float"
	}
	return ""
}

// encGeneric: the value yaml.v3 / encoding/json produce for an `any` target.
func (in *Interp) encGeneric(n *encNode, flav encFlavor) Iface {
	anyT := types.NewInterfaceType(nil, nil)
	switch n.kind {
	case encNull:
		return Iface{}
	case encScalar:
		switch basicClass(n.vt) {
		case "string":
			return Iface{t: types.Typ[types.String], v: n.val}
		case "bool":
			return Iface{t: types.Typ[types.Bool], v: n.val}
		case "int":
			if flav == flavJSON {
				in.abort("encoding codec: JSON number into any (float64) not modelled")
			}
			return Iface{t: types.Typ[types.Int], v: in.convert(n.val, n.vt, types.Typ[types.Int])}
		case "float":
			return Iface{t: types.Typ[types.Float64], v: n.val}
		}
	case encSeq:
		ag := in.newAgg(len(n.elems))
		for i, e := range n.elems {
			ag.e[i] = in.encGeneric(e, flav)
		}
		return Iface{t: types.NewSlice(anyT), v: Slice{arr: ag, len: len(n.elems), cap: len(n.elems)}}
	case encMap:
		m := &Map{idx: map[string]*mapEnt{}}
		allStr := true
		for _, k := range n.keys {
			if basicClass(k.vt) != "string" {
				allStr = false
			}
		}
		for i, k := range n.keys {
			if allStr {
				in.mapUpdate(m, k.val, in.encGeneric(n.vals[i], flav))
			} else {
				in.mapUpdate(m, in.encGeneric(k, flav), in.encGeneric(n.vals[i], flav))
			}
		}
		if allStr {
			return Iface{t: types.NewMap(types.Typ[types.String], anyT), v: m}
		}
		return Iface{t: types.NewMap(anyT, anyT), v: m}
	}
	in.abort("encoding codec: generic decode of node kind %d", n.kind)
	return Iface{}
}

// encDecode decodes node n into a value of type t; cur is the current value of the target (kept for absent keys).
func (in *Interp) encDecode(n *encNode, t types.Type, cur Value, flav encFlavor, strict bool) Value {
	if isTimeType(t) {
		if n.kind == encNull {
			return in.zero(t)
		}
		if n.kind != encScalar || n.vt == nil || !isTimeType(n.vt) {
			encFail("cannot unmarshal a non-timestamp into time.Time")
		}
		return cloneVal(n.val)
	}
	if _, isI := t.Underlying().(*types.Interface); !isI && in.encHasCustomCodec(t) {
		in.abort("encoding codec: type %s has a custom (un)marshaller", t)
	}
	if n.kind == encNull {
		if flav == flavYAML {
			return in.zero(t)
		}
		// encoding/json: null leaves non-pointer/interface/map/slice targets unchanged
		switch t.Underlying().(type) {
		case *types.Pointer, *types.Interface, *types.Map, *types.Slice:
			return in.zero(t)
		}
		return cur
	}
	switch u := t.Underlying().(type) {
	case *types.Basic:
		if n.kind != encScalar {
			encFail("cannot unmarshal a collection into %s", t)
		}
		sc, dc := basicClass(n.vt), basicClass(t)
		if sc != dc || dc == "" {
			encFail("cannot unmarshal %s into %s", sc, t)
		}
		if dc == "int" {
			// range check as yaml.v3/json do (overflow is an error): only decided when widths differ
			sw, ss := width(n.vt)
			dw, ds := width(t)
			if sw != dw || ss != ds {
				cv := in.convert(n.val, n.vt, t)
				back := in.convert(cv, t, n.vt)
				if !in.decide(Eq(back.(*Term), n.val.(*Term))) {
					encFail("integer overflows %s", t)
				}
				return cv
			}
		}
		return n.val
	case *types.Pointer:
		cell := in.newCell(in.zero(u.Elem()))
		var curElem Value = cell.e[0]
		if p, ok := cur.(Ptr); ok && !p.IsNil() {
			curElem = in.load(p)
		}
		cell.e[0] = in.encDecode(n, u.Elem(), curElem, flav, strict)
		return Ptr{obj: cell}
	case *types.Interface:
		if u.NumMethods() != 0 {
			encFail("cannot unmarshal into non-empty interface %s", t)
		}
		return in.encGeneric(n, flav)
	case *types.Slice:
		if n.kind != encSeq {
			encFail("cannot unmarshal a non-sequence into %s", t)
		}
		s := in.makeSlice(u.Elem(), len(n.elems), len(n.elems))
		for i, e := range n.elems {
			s.arr.e[i] = in.encDecode(e, u.Elem(), in.zero(u.Elem()), flav, strict)
		}
		return s
	case *types.Array:
		if n.kind != encSeq || int64(len(n.elems)) != u.Len() {
			encFail("cannot unmarshal into %s: wrong length", t)
		}
		a := in.newAgg(len(n.elems))
		for i, e := range n.elems {
			a.e[i] = in.encDecode(e, u.Elem(), in.zero(u.Elem()), flav, strict)
		}
		return a
	case *types.Map:
		if n.kind != encMap {
			encFail("cannot unmarshal a non-mapping into %s", t)
		}
		m, _ := cur.(*Map)
		if m == nil {
			m = &Map{idx: map[string]*mapEnt{}}
		}
		for i, k := range n.keys {
			kv := in.encDecode(k, u.Key(), in.zero(u.Key()), flav, strict)
			in.mapUpdate(m, kv, in.encDecode(n.vals[i], u.Elem(), in.zero(u.Elem()), flav, strict))
		}
		return m
	case *types.Struct:
		if n.kind != encMap {
			encFail("cannot unmarshal a non-mapping into %s", t)
		}
		a, _ := cur.(*Agg)
		if a == nil {
			a = in.zero(t).(*Agg)
		} else {
			a = cloneVal(a).(*Agg)
		}
		used := make([]bool, len(n.keys))
		in.encDecodeStruct(n, a, u, flav, strict, used)
		if strict {
			for i, ok := range used {
				if !ok {
					ks, _ := n.keys[i].val.(Str)
					encFail("field %s not found in type %s", ks.String(), t)
				}
			}
		}
		return a
	}
	in.abort("encoding codec: cannot unmarshal into type %s", t)
	return nil
}

func (in *Interp) encDecodeStruct(n *encNode, a *Agg, st *types.Struct, flav encFlavor, strict bool, used []bool) {
	for _, f := range in.encFields(st, flav) {
		if f.inline {
			switch fu := f.typ.Underlying().(type) {
			case *types.Struct:
				in.encDecodeStruct(n, a.e[f.idx].(*Agg), fu, flav, strict, used)
			default:
				in.abort("encoding codec: inline field of type %s on decode", f.typ)
			}
			continue
		}
		for i, k := range n.keys {
			ks, isStr := k.val.(Str)
			if !isStr || used[i] {
				continue
			}
			match := false
			if c, ok := ks.Conc(); ok {
				match = c == f.key || (flav == flavJSON && strings.EqualFold(c, f.key))
			} else {
				match = in.decide(in.strEq(ks, strOf(f.key)))
			}
			if match {
				used[i] = true
				a.e[f.idx] = in.encDecode(n.vals[i], f.typ, a.e[f.idx], flav, strict)
				break
			}
		}
	}
}

// ---- token table ----

type encTable struct {
	nodes []*encNode
}

func (in *Interp) encTab() *encTable {
	if in.userState == nil {
		in.userState = map[string]Value{}
	}
	t, _ := in.userState["encoding.table"].(*encTable)
	if t == nil {
		t = &encTable{}
		in.userState["encoding.table"] = t
	}
	return t
}

func (in *Interp) encNewToken(n *encNode) Slice {
	t := in.encTab()
	t.nodes = append(t.nodes, n)
	tok := encTokenPrefix + strconv.Itoa(len(t.nodes)-1) + "\x00"
	return in.byteSlice(strOf(tok).terms())
}

// encLookup returns the tree of a token, or nil when data is not (entirely and concretely) a token.
func (in *Interp) encLookup(data []*Term) *encNode {
	s, ok := strFromTerms(data).Conc()
	if !ok {
		// symbolic bytes: a token is recognised only if the bytes are *forced* to be one; arbitrary bytes do not parse
		return nil
	}
	// leading '#' comment lines (bufconfig's docs-link header) are not part of the document
	for strings.HasPrefix(s, "#") {
		i := strings.IndexByte(s, '\n')
		if i < 0 {
			return nil
		}
		s = s[i+1:]
	}
	if !strings.HasPrefix(s, encTokenPrefix) || !strings.HasSuffix(s, "\x00") {
		return nil
	}
	id, err := strconv.Atoi(s[len(encTokenPrefix) : len(s)-1])
	t := in.encTab()
	if err != nil || id < 0 || id >= len(t.nodes) {
		return nil
	}
	return t.nodes[id]
}

func (in *Interp) encError(msg string) Iface {
	p := in.prog.ImportedPackage("errors")
	if p == nil {
		in.abort("errors not loaded")
	}
	return in.call(p.Func("New"), []Value{strOf(msg)}, nil).(Iface)
}

func (in *Interp) encUnmarshal(args []Value, flav encFlavor, strict bool, what string) Value {
	data := in.bytesOf(args[0])
	if len(data) == 0 {
		return Iface{}
	}
	target, _ := args[1].(Iface)
	pt, isPtr := types.Type(nil), false
	if target.t != nil {
		var p *types.Pointer
		p, isPtr = target.t.Underlying().(*types.Pointer)
		if isPtr {
			pt = p.Elem()
		}
	}
	if !isPtr || target.v.(Ptr).IsNil() {
		return in.encError("could not unmarshal as " + what + ": non-pointer or nil target")
	}
	n := in.encLookup(data)
	if n == nil {
		return in.encError("could not unmarshal as " + what + ": not a document produced by the codec")
	}
	tp := target.v.(Ptr)
	var res Value
	var failed *encErr
	func() {
		defer func() {
			if r := recover(); r != nil {
				if e, ok := r.(encErr); ok {
					failed = &e
					return
				}
				panic(r)
			}
		}()
		res = in.encDecode(n, pt, in.load(tp), flav, strict)
	}()
	if failed != nil {
		return in.encError("could not unmarshal as " + what + ": " + failed.msg)
	}
	in.store(tp, res)
	return Iface{}
}

func init() {
	// encoding/json.Unmarshal of a codec token (e.g. a document a harness produced with encoding.MarshalYAML): decoded
	// by json tags, non-strict; anything else (also empty input) does not parse.
	reg("encoding/json.Unmarshal", func(in *Interp, fn *ssa.Function, args []Value) Value {
		if len(in.bytesOf(args[0])) == 0 {
			return in.encError("unexpected end of JSON input")
		}
		return in.encUnmarshal(args, flavJSON, false, "JSON")
	})
}

func init() {
	const pkg = "github.com/bufbuild/buf/private/pkg/encoding."
	reg(pkg+"MarshalYAML", func(in *Interp, fn *ssa.Function, args []Value) Value {
		v, _ := args[0].(Iface)
		var n *encNode
		if v.IsNil() {
			n = &encNode{kind: encNull}
		} else {
			n = in.encTree(v.v, v.t, flavYAML)
		}
		return Tuple{in.encNewToken(n), Iface{}}
	})
	for _, e := range []struct {
		name   string
		flav   encFlavor
		strict bool
		what   string
	}{
		{"UnmarshalYAMLStrict", flavYAML, true, "YAML"},
		{"UnmarshalYAMLNonStrict", flavYAML, false, "YAML"},
		{"UnmarshalJSONStrict", flavJSON, true, "JSON"},
		{"UnmarshalJSONNonStrict", flavJSON, false, "JSON"},
		{"UnmarshalJSONOrYAMLStrict", flavYAML, true, "JSON or YAML"},
		{"UnmarshalJSONOrYAMLNonStrict", flavYAML, false, "JSON or YAML"},
	} {
		e := e
		reg(pkg+e.name, func(in *Interp, fn *ssa.Function, args []Value) Value {
			return in.encUnmarshal(args, e.flav, e.strict, e.what)
		})
	}
}

// ---- encoding/json.Marshal used as an equality key (added for C16: writeBufYAMLFile's hoisting) ----
//
// bufconfig marshals each module's external lint/breaking struct with encoding/json.Marshal and uses the bytes
// only as a map key ("are all per-module sections identical?"). The model is an *injective* length-prefixed
// flattening of the same tagged tree MarshalYAML builds (json flavour: json tags, omitempty, map keys sorted):
// equal trees <=> equal bytes. The bytes are not JSON text; Unmarshal of them fails ("not a document").

func encU32(n int) []*Term {
	return []*Term{C(8, uint64(n)&0xff), C(8, uint64(n>>8)&0xff), C(8, uint64(n>>16)&0xff), C(8, uint64(n>>24)&0xff)}
}

func (in *Interp) encFlatten(n *encNode, out []*Term) []*Term {
	switch n.kind {
	case encNull:
		return append(out, C(8, 'N'))
	case encScalar:
		switch basicClass(n.vt) {
		case "string":
			s := n.val.(Str)
			if s.opaque {
				in.abort("encoding codec: json.Marshal of an opaque string")
			}
			out = append(out, C(8, 'S'))
			out = append(out, encU32(s.Len())...)
			return append(out, s.terms()...)
		case "bool":
			return append(out, C(8, 'B'), Ite(n.val.(*Term), C(8, 1), C(8, 0)))
		case "int":
			t := n.val.(*Term)
			_, signed := width(n.vt)
			t64 := Ext(t, 64, signed)
			out = append(out, C(8, 'I'))
			for sh := 0; sh < 64; sh += 8 {
				out = append(out, Ext(Bin("bvlshr", t64, C(64, uint64(sh))), 8, false))
			}
			return out
		}
		in.abort("encoding codec: json.Marshal of scalar type %s", n.vt)
	case encSeq:
		out = append(out, C(8, 'L'))
		out = append(out, encU32(len(n.elems))...)
		for _, e := range n.elems {
			out = in.encFlatten(e, out)
		}
		return out
	case encMap:
		out = append(out, C(8, 'M'))
		out = append(out, encU32(len(n.keys))...)
		for i := range n.keys {
			out = in.encFlatten(n.keys[i], out)
			out = in.encFlatten(n.vals[i], out)
		}
		return out
	}
	in.abort("encoding codec: flatten of node kind %d", n.kind)
	return nil
}

// encSortMaps orders the entries of every map node that came from a Go map by key (encoding/json sorts map keys);
// struct-derived nodes keep field order. Only string keys are supported.
func (in *Interp) encSortGoMap(n *encNode) {
	for i := 1; i < len(n.keys); i++ {
		for j := i; j > 0; j-- {
			a, aok := n.keys[j].val.(Str)
			b, bok := n.keys[j-1].val.(Str)
			if !aok || !bok {
				in.abort("encoding codec: json.Marshal of a map with non-string keys")
			}
			if !in.decide(in.strLess(a, b)) {
				break
			}
			n.keys[j], n.keys[j-1] = n.keys[j-1], n.keys[j]
			n.vals[j], n.vals[j-1] = n.vals[j-1], n.vals[j]
		}
	}
}

func (in *Interp) encTreeJSONSorted(v Value, t types.Type) *encNode {
	n := in.encTree(v, t, flavJSON)
	var walk func(n *encNode, t types.Type)
	walk = func(n *encNode, t types.Type) {
		if n == nil || t == nil {
			return
		}
		switch u := t.Underlying().(type) {
		case *types.Pointer:
			walk(n, u.Elem())
		case *types.Map:
			if n.kind == encMap {
				in.encSortGoMap(n)
				for _, c := range n.vals {
					walk(c, u.Elem())
				}
			}
		case *types.Slice:
			for _, c := range n.elems {
				walk(c, u.Elem())
			}
		case *types.Array:
			for _, c := range n.elems {
				walk(c, u.Elem())
			}
		case *types.Struct:
			if n.kind != encMap {
				return
			}
			// keys are in encFields order minus omitted ones: match by key name
			fields := in.encFields(u, flavJSON)
			for i, k := range n.keys {
				ks, _ := k.val.(Str)
				kc, _ := ks.Conc()
				for _, f := range fields {
					if !f.inline && f.key == kc {
						walk(n.vals[i], f.typ)
						break
					}
				}
			}
		}
	}
	walk(n, t)
	return n
}

func init() {
	reg("encoding/json.Marshal", func(in *Interp, fn *ssa.Function, args []Value) Value {
		v, _ := args[0].(Iface)
		var n *encNode
		if v.IsNil() {
			n = &encNode{kind: encNull}
		} else {
			if _, isI := v.t.Underlying().(*types.Interface); isI {
				in.abort("encoding codec: json.Marshal of interface-typed value")
			}
			n = in.encTreeJSONSorted(v.v, v.t)
		}
		return Tuple{in.byteSlice(in.encFlatten(n, nil)), Iface{}}
	})
}
