package main

import (
	"strconv"

	"golang.org/x/tools/go/ssa"
)

// strconv.Itoa of a symbolic int. The real code indexes digit tables with the value, which forks once per
// feasible value. This model forks only on the sign and on the number of decimal digits and returns a string of
// concrete length whose bytes are terms: digit j = '0' + (|x| / 10^(k-1-j)) % 10, computed at the narrowest of
// 8/16/32/64 bits that holds 10^k (the path condition bounds |x| < 10^k, so the truncation is exact).
// Concrete arguments are rendered natively.
func init() {
	reg("strconv.Itoa", func(in *Interp, fn *ssa.Function, args []Value) Value {
		x, ok := args[0].(*Term)
		if !ok {
			in.abort("strconv.Itoa: integer term expected, have %T", args[0])
		}
		if x.isC {
			return strOf(strconv.FormatInt(sext(x.c, x.w), 10))
		}
		return in.itoaSym(x)
	})
}

func (in *Interp) itoaSym(x *Term) Value {
	w := x.w
	minInt := uint64(1) << uint(w-1)
	neg := in.decide(Bin("bvslt", x, C(w, 0)))
	u := x
	if neg {
		if in.decide(Eq(x, C(w, minInt))) {
			return strOf(strconv.FormatInt(sext(minInt, w), 10))
		}
		u = Neg(x)
	}
	// number of digits k: smallest k with u < 10^k (u <= 2^(w-1)-1 here)
	maxDigits := len(strconv.FormatUint(minInt-1, 10))
	k := 1
	pow := uint64(10)
	for k < maxDigits {
		if in.decide(Bin("bvult", u, C(w, pow))) {
			break
		}
		k++
		pow *= 10
	}
	nw := 64
	switch {
	case k <= 2:
		nw = 8
	case k <= 4:
		nw = 16
	case k <= 9:
		nw = 32
	}
	if nw > w {
		nw = w
	}
	un := Ext(u, nw, false)
	var out []*Term
	if neg {
		out = append(out, C(8, '-'))
	}
	p := uint64(1)
	for j := 1; j < k; j++ {
		p *= 10
	}
	for j := 0; j < k; j++ {
		q := un
		if p != 1 {
			q = Bin("bvudiv", un, C(nw, p))
		}
		if j != 0 {
			q = Bin("bvurem", q, C(nw, 10))
		}
		out = append(out, Bin("bvadd", Ext(q, 8, false), C(8, '0')))
		p /= 10
	}
	return strFromTerms(out)
}
