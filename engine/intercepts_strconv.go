package main

import (
	"fmt"
	"strconv"

	"golang.org/x/tools/go/ssa"
)

// strconv.Itoa of a symbolic int. The real code indexes digit tables with the value, which forks once per
// feasible value. This model forks only on the sign and on the number of decimal digits k and returns a string of
// concrete length whose digit bytes are '0'+d_j for *fresh* 8-bit variables d_0..d_(k-1) constrained by
//   0 <= d_j <= 9,  d_0 >= 1 if k > 1,  |x| = sum d_j * 10^(k-1-j)
// (the decimal numeral of |x| exists and is unique, so the constraint never prunes a value of x and determines the
// digits). The linear form keeps "equal numerals => equal values" a congruence for the solver, which digit
// extraction by division does not. The sum is built at the narrowest of 8/16/32/64 bits that holds 10^k (the path
// condition bounds |x| < 10^k, so the truncation is exact). Rendering the same term again on a path returns the same
// digits. Concrete arguments are rendered natively.
func init() {
	reg("strconv.Itoa", func(in *Interp, fn *ssa.Function, args []Value) Value {
		x, ok := args[0].(*Term)
		if !ok {
			in.abort("strconv.Itoa: integer term expected, have %T", args[0])
		}
		if x.isC {
			return strOf(strconv.FormatInt(sext(x.c, x.w), 10))
		}
		return in.itoaSym(x)
	})
}

type itoaMemo struct{ m map[*Term]Str }

func (in *Interp) itoaSym(x *Term) Value {
	if in.userState == nil {
		in.userState = map[string]Value{}
	}
	memo, _ := in.userState["strconv.itoa"].(*itoaMemo)
	if memo == nil {
		memo = &itoaMemo{m: map[*Term]Str{}}
		in.userState["strconv.itoa"] = memo
	}
	if s, ok := memo.m[x]; ok {
		return s
	}
	w := x.w
	minInt := uint64(1) << uint(w-1)
	neg := in.decide(Bin("bvslt", x, C(w, 0)))
	u := x
	if neg {
		if in.decide(Eq(x, C(w, minInt))) {
			return strOf(strconv.FormatInt(sext(minInt, w), 10))
		}
		u = Neg(x)
	}
	// number of digits k: smallest k with u < 10^k (u <= 2^(w-1)-1 here)
	maxDigits := len(strconv.FormatUint(minInt-1, 10))
	k := 1
	pow := uint64(10)
	for k < maxDigits {
		if in.decide(Bin("bvult", u, C(w, pow))) {
			break
		}
		k++
		pow *= 10
	}
	nw := 64
	switch {
	case k <= 2:
		nw = 8
	case k <= 4:
		nw = 16
	case k <= 9:
		nw = 32
	}
	if nw > w {
		nw = w
	}
	un := Ext(u, nw, false)
	var out []*Term
	if neg {
		out = append(out, C(8, '-'))
	}
	base := in.nvars
	in.nvars++
	p := uint64(1)
	for j := 1; j < k; j++ {
		p *= 10
	}
	sum := C(nw, 0)
	for j := 0; j < k; j++ {
		name := fmt.Sprintf("dg%d_%d", base, j)
		in.sol.Declare(name, 8)
		d := V(name, 8)
		in.assume(Bin("bvule", d, C(8, 9)))
		if j == 0 && k > 1 {
			in.assume(Bin("bvule", C(8, 1), d))
		}
		sum = Bin("bvadd", sum, Bin("bvmul", Ext(d, nw, false), C(nw, p)))
		out = append(out, Bin("bvadd", d, C(8, '0')))
		p /= 10
	}
	in.assume(Eq(un, sum))
	s := strFromTerms(out)
	memo.m[x] = s
	return s
}

// internal/bytealg.CompareString (assembly; reached from strings.Compare and cmp-style comparators): same model as
// the []byte variant bytealg.Compare in intercepts.go - decide equality, then lexicographic order.
func init() {
	reg("internal/bytealg.CompareString", func(in *Interp, fn *ssa.Function, args []Value) Value {
		a, ok1 := args[0].(Str)
		b, ok2 := args[1].(Str)
		if !ok1 || !ok2 {
			in.abort("bytealg.CompareString: strings expected, have %T, %T", args[0], args[1])
		}
		if in.decide(in.strEq(a, b)) {
			return CI(0)
		}
		if in.decide(in.strLess(a, b)) {
			return CI(-1)
		}
		return CI(1)
	})
}
