package main

import (
	"cmp"
	"fmt"
	"strconv"

	"golang.org/x/tools/go/ssa"
)

// strconv.Itoa of a symbolic int. The real code indexes digit tables with the value, which forks once per
// feasible value. This model forks only on the sign and on the number of decimal digits k and returns a string of
// concrete length whose digit bytes are '0'+d_j for *fresh* 8-bit variables d_0..d_(k-1) constrained by
//   0 <= d_j <= 9,  d_0 >= 1 if k > 1,  |x| = sum d_j * 10^(k-1-j)
// (the decimal numeral of |x| exists and is unique, so the constraint never prunes a value of x and determines the
// digits). The linear form keeps "equal numerals => equal values" a congruence for the solver, which digit
// extraction by division does not. The sum is built at the narrowest of 8/16/32/64 bits that holds 10^k (the path
// condition bounds |x| < 10^k, so the truncation is exact). Rendering the same term again on a path returns the same
// digits. Concrete arguments are rendered natively.
func init() {
	reg("strconv.Itoa", func(in *Interp, fn *ssa.Function, args []Value) Value {
		x, ok := args[0].(*Term)
		if !ok {
			in.abort("strconv.Itoa: integer term expected, have %T", args[0])
		}
		if x.isC {
			return strOf(strconv.FormatInt(sext(x.c, x.w), 10))
		}
		return in.itoaSym(x)
	})
}

type itoaMemo struct{ m map[*Term]Str }

func (in *Interp) itoaSym(x *Term) Value {
	if in.userState == nil {
		in.userState = map[string]Value{}
	}
	memo, _ := in.userState["strconv.itoa"].(*itoaMemo)
	if memo == nil {
		memo = &itoaMemo{m: map[*Term]Str{}}
		in.userState["strconv.itoa"] = memo
	}
	if s, ok := memo.m[x]; ok {
		return s
	}
	w := x.w
	minInt := uint64(1) << uint(w-1)
	neg := in.decide(Bin("bvslt", x, C(w, 0)))
	u := x
	if neg {
		if in.decide(Eq(x, C(w, minInt))) {
			return strOf(strconv.FormatInt(sext(minInt, w), 10))
		}
		u = Neg(x)
	}
	// number of digits k: smallest k with u < 10^k (u <= 2^(w-1)-1 here)
	maxDigits := len(strconv.FormatUint(minInt-1, 10))
	k := 1
	pow := uint64(10)
	for k < maxDigits {
		if in.decide(Bin("bvult", u, C(w, pow))) {
			break
		}
		k++
		pow *= 10
	}
	nw := 64
	switch {
	case k <= 2:
		nw = 8
	case k <= 4:
		nw = 16
	case k <= 9:
		nw = 32
	}
	if nw > w {
		nw = w
	}
	un := Ext(u, nw, false)
	var out []*Term
	if neg {
		out = append(out, C(8, '-'))
	}
	base := in.nvars
	in.nvars++
	p := uint64(1)
	for j := 1; j < k; j++ {
		p *= 10
	}
	sum := C(nw, 0)
	for j := 0; j < k; j++ {
		name := fmt.Sprintf("dg%d_%d", base, j)
		in.sol.Declare(name, 8)
		d := V(name, 8)
		in.assume(Bin("bvule", d, C(8, 9)))
		if j == 0 && k > 1 {
			in.assume(Bin("bvule", C(8, 1), d))
		}
		sum = Bin("bvadd", sum, Bin("bvmul", Ext(d, nw, false), C(nw, p)))
		out = append(out, Bin("bvadd", d, C(8, '0')))
		p /= 10
	}
	in.assume(Eq(un, sum))
	s := strFromTerms(out)
	memo.m[x] = s
	return s
}

// Three-way comparisons as *terms* (no forking): ite(a<b, -1, ite(b<a, 1, 0)).
//   - internal/bytealg.CompareString (assembly; reached from strings.Compare) - without it the path aborts;
//   - cmp.Compare[T] for integer and string T: the real body branches twice per call, and comparators written as
//     cmp.Or(cmp.Compare(..), cmp.Compare(..), ...) evaluate every operand eagerly, i.e. 3^k paths for k fields where
//     an if-chain has 2k+1. As a term the caller forks only where it inspects the result.
// Floats (concrete in this engine) are compared natively with cmp.Compare's NaN ordering.
func threeWay(lt, gt *Term) *Term {
	return Ite(lt, C(64, ^uint64(0)), Ite(gt, C(64, 1), C(64, 0)))
}

func init() {
	reg("internal/bytealg.CompareString", func(in *Interp, fn *ssa.Function, args []Value) Value {
		a, ok1 := args[0].(Str)
		b, ok2 := args[1].(Str)
		if !ok1 || !ok2 {
			in.abort("bytealg.CompareString: strings expected, have %T, %T", args[0], args[1])
		}
		return threeWay(in.strLess(a, b), in.strLess(b, a))
	})
	reg("cmp.Compare", func(in *Interp, fn *ssa.Function, args []Value) Value {
		switch a := args[0].(type) {
		case Str:
			b := args[1].(Str)
			return threeWay(in.strLess(a, b), in.strLess(b, a))
		case *Term:
			b, ok := args[1].(*Term)
			if !ok || a.w == 0 {
				in.abort("cmp.Compare: unsupported operands %T, %T", args[0], args[1])
			}
			_, signed := width(fn.Signature.Params().At(0).Type())
			op := "bvult"
			if signed {
				op = "bvslt"
			}
			return threeWay(Bin(op, a, b), Bin(op, b, a))
		case Float:
			b := args[1].(Float)
			return CI(cmp.Compare(a.f, b.f))
		}
		in.abort("cmp.Compare on %T", args[0])
		return nil
	})
}
