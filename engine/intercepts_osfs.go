package main

// Abstract file system for C15-C (storageos atomic writer). The os.* file functions are not interpreted (syscalls);
// each one is delegated to a function of the same shape in the *harness* of the lemma's package, which implements a
// fault-injectable in-memory file system (path -> bytes, numbered syscalls, injected errors, crash-point invariant).
// A lemma whose package does not define the verifOS* functions aborts the path when it reaches one of these calls.
//
//	os.CreateTemp(dir, pattern)      -> verifOSCreateTemp(dir, pattern string) (*os.File, error)
//	os.Create(name)                  -> verifOSCreate(name string) (*os.File, error)
//	os.Open(name)                    -> verifOSOpen(name string) (*os.File, error)
//	os.OpenFile(name, flag, perm)    -> verifOSOpenFile(name string, flag int, perm os.FileMode) (*os.File, error)
//	                                    (offset-aware: no O_TRUNC keeps the old bytes, writes overwrite from offset 0)
//	os.RemoveAll(path)               -> verifOSRemoveAll(path string) error
//	(*os.File).Write(p)              -> verifOSFileWrite(f *os.File, p []byte) (int, error)
//	(*os.File).Read(p)               -> verifOSFileRead(f *os.File, p []byte) (int, error)
//	(*os.File).ReadFrom(r)           -> verifOSFileReadFrom(f *os.File, r io.Reader) (int64, error)
//	(*os.File).Readdirnames(n)       -> verifOSFileReaddirnames(f *os.File, n int) ([]string, error)
//	(*os.File).Close()               -> verifOSFileClose(f *os.File) error
//	(*os.File).Name()                -> verifOSFileName(f *os.File) string
//	os.Rename(old, new)              -> verifOSRename(oldpath, newpath string) error
//	os.Remove(name)                  -> verifOSRemove(name string) error
//	os.Stat(name), os.Lstat(name)    -> verifOSLstat(name string) (os.FileInfo, error)
//	os.MkdirAll(path, perm)          -> verifOSMkdirAll(path string, perm os.FileMode) error
//
// *os.File values are whatever the harness returns (new(os.File)); the harness keeps its own side table keyed by the
// pointer. Package os is not initialised by the engine (skipInit); its exported error variables are copied from io/fs.

import (
	"golang.org/x/tools/go/ssa"
)

// partialInit: replacement initialisers for packages in skipInit (run once, like a package initialiser).
var partialInit = map[string]func(in *Interp, p *ssa.Package){}

func delegateToHarness(name string) interceptFn {
	return func(in *Interp, fn *ssa.Function, args []Value) Value {
		return in.call(in.harnessFunc(name), args, nil)
	}
}

func init() {
	reg("os.CreateTemp", delegateToHarness("verifOSCreateTemp"))
	reg("os.Create", delegateToHarness("verifOSCreate"))
	reg("os.Open", delegateToHarness("verifOSOpen"))
	reg("os.OpenFile", delegateToHarness("verifOSOpenFile"))
	reg("os.RemoveAll", delegateToHarness("verifOSRemoveAll"))
	reg("(*os.File).Write", delegateToHarness("verifOSFileWrite"))
	reg("(*os.File).Read", delegateToHarness("verifOSFileRead"))
	reg("(*os.File).ReadFrom", delegateToHarness("verifOSFileReadFrom"))
	reg("(*os.File).Readdirnames", delegateToHarness("verifOSFileReaddirnames"))
	reg("(*os.File).Close", delegateToHarness("verifOSFileClose"))
	reg("(*os.File).Name", delegateToHarness("verifOSFileName"))
	reg("os.Rename", delegateToHarness("verifOSRename"))
	reg("os.Remove", delegateToHarness("verifOSRemove"))
	reg("os.Stat", delegateToHarness("verifOSLstat"))
	reg("os.Lstat", delegateToHarness("verifOSLstat"))
	reg("os.MkdirAll", delegateToHarness("verifOSMkdirAll"))

	partialInit["os"] = func(in *Interp, p *ssa.Package) {
		fsPkg := in.prog.ImportedPackage("io/fs")
		if fsPkg == nil {
			return
		}
		for _, n := range []string{"ErrInvalid", "ErrPermission", "ErrExist", "ErrNotExist", "ErrClosed"} {
			src, dst := fsPkg.Var(n), p.Var(n)
			if src == nil || dst == nil {
				continue
			}
			in.store(Ptr{obj: in.global(dst)}, in.load(Ptr{obj: in.global(src)}))
		}
	}
}
