package main

import (
	"unicode"

	"golang.org/x/tools/go/ssa"
)

// unicode.IsUpper/IsLower/IsLetter/... index the 256-entry table unicode.properties with the rune for Latin-1 input.
// On a symbolic rune that becomes a 256-deep ite chain per call, which z3 4.8.12 handles very badly (seconds per
// query once a few of them are defined). The model below is exact: for a symbolic rune it decides r <= 0xFF; on the
// Latin-1 side the result is the disjunction of the maximal [lo,hi] runs on which the *real* Go predicate (evaluated
// natively over 0..255 at start-up) is true; outside Latin-1 the real SSA body runs. Concrete runes are evaluated natively.
func init() {
	preds := map[string]func(rune) bool{
		"unicode.IsUpper":   unicode.IsUpper,
		"unicode.IsLower":   unicode.IsLower,
		"unicode.IsLetter":  unicode.IsLetter,
		"unicode.IsNumber":  unicode.IsNumber,
		"unicode.IsPunct":   unicode.IsPunct,
		"unicode.IsControl": unicode.IsControl,
		"unicode.IsGraphic": unicode.IsGraphic,
		"unicode.IsPrint":   unicode.IsPrint,
		"unicode.IsSymbol":  unicode.IsSymbol,
		"unicode.IsMark":    unicode.IsMark,
	}
	for name, pred := range preds {
		pred := pred
		var runs [][2]uint64
		for r := 0; r <= 0xFF; r++ {
			if !pred(rune(r)) {
				continue
			}
			if n := len(runs); n > 0 && runs[n-1][1] == uint64(r-1) {
				runs[n-1][1] = uint64(r)
			} else {
				runs = append(runs, [2]uint64{uint64(r), uint64(r)})
			}
		}
		reg(name, func(in *Interp, fn *ssa.Function, args []Value) Value {
			r, ok := args[0].(*Term)
			if !ok {
				in.abort("%s: rune term expected, have %T", fn, args[0])
			}
			if r.isC {
				return B(pred(rune(int32(uint32(r.c)))))
			}
			if !in.decide(Bin("bvule", r, C(r.w, 0xFF))) {
				in.bypass = fn
				return in.call(fn, args, nil)
			}
			res := B(false)
			for _, run := range runs {
				var c *Term
				if run[0] == run[1] {
					c = Eq(r, C(r.w, run[0]))
				} else {
					c = And(Bin("bvule", C(r.w, run[0]), r), Bin("bvule", r, C(r.w, run[1])))
				}
				res = Or(res, c)
			}
			return res
		})
	}
}
