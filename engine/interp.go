package main

import (
	"fmt"
	"go/constant"
	"go/token"
	"go/types"
	"math"
	"os"
	"sort"
	"strings"
	"sync"

	"golang.org/x/tools/go/ssa"
)

// abortPath ends the current path as inconclusive (unsupported construct, budget, ...).
type abortPath struct{ why string }

// stopPath ends the current path normally (assume false, infeasible).
type stopPath struct{ why string }

// goPanic is a Go-level panic propagating through interpreted frames.
type goPanic struct {
	val       Value
	recovered bool
	trace     string
}

type Decision struct {
	Kind byte  // 'b' branch, 'c' choice, 'v' concretised value
	Val  int64 // branch: 0/1; choice: index; value: the value
}

type undoRec struct {
	agg *Agg
	idx int
	old Value
	m   *Map
	ms  *mapSnap
}

type mapSnap struct {
	ents []*mapEnt
	idx  map[string]*mapEnt
	sym  []*mapEnt
	n    int
	vals []Value
	dead []bool
}

type fnInfo struct {
	slots     map[ssa.Value]int
	n         int
	intercept interceptFn
	resolved  bool
}

type deferred struct {
	cc     *ssa.CallCommon
	callee Value
	args   []Value
}

type frame struct {
	fn     *ssa.Function
	info   *fnInfo
	locals []Value
	defers []deferred
	prev   *ssa.BasicBlock
	result Value
	caller *frame
}

type Interp struct {
	prog *ssa.Program
	sol  *Solver
	lem  *LemmaRun

	prefix []Decision
	taken  []Decision
	twoSided int // number of decisions on this path where both sides were feasible
	newAlts  [][]Decision

	nvars   int
	nondets []NondetRec
	steps   int
	maxSteps int
	pc      []*Term

	globals   map[*ssa.Global]*Agg
	inited    map[*ssa.Package]bool
	initDepth int
	journal   []undoRec
	fninfo    map[*ssa.Function]*fnInfo

	panics []*goPanic
	depth  int
	curFrame *frame

	// per-path bookkeeping
	covers     map[string]bool
	asserts    int
	funcsSeen  map[*ssa.Function]bool
	intercepts map[string]int
	uf         *ufState
	sched      *scheduler
	known      map[string]bool
	symMulDiv  int
	opaqueN    int
	model      map[string]uint64
	modelHits  int
	lits       map[string]bool
	litHits    int
	conc       *concRun          // non-nil: concrete (conformance) mode
	fixed      map[string]uint64 // variables uniquely determined by the path condition
	free       map[string]bool   // variables found not (yet) determined
	userState  map[string]Value
	bypass     *ssa.Function // the next call of this function runs its real body instead of its intercept
}

func (in *Interp) info(fn *ssa.Function) *fnInfo {
	if fi, ok := in.fninfo[fn]; ok {
		return fi
	}
	fi := &fnInfo{slots: map[ssa.Value]int{}}
	add := func(v ssa.Value) {
		fi.slots[v] = fi.n
		fi.n++
	}
	for _, p := range fn.Params {
		add(p)
	}
	for _, p := range fn.FreeVars {
		add(p)
	}
	for _, b := range fn.Blocks {
		for _, ins := range b.Instrs {
			if v, ok := ins.(ssa.Value); ok {
				add(v)
			}
		}
	}
	if fn.Blocks != nil || fn.Pkg == nil {
		in.fninfo[fn] = fi
	}
	return fi
}

func (in *Interp) abort(format string, a ...any) {
	panic(abortPath{fmt.Sprintf(format, a...)})
}

func (in *Interp) where() string {
	var parts []string
	for fr, i := in.curFrame, 0; fr != nil && i < 6; fr, i = fr.caller, i+1 {
		parts = append(parts, fr.fn.String())
	}
	return strings.Join(parts, " < ")
}

func (in *Interp) goPanicStr(msg string) {
	panic(&goPanic{val: Iface{t: types.Typ[types.String], v: strOf(msg)}, trace: in.where()})
}

// ---------- heap writes (journaled for persistent objects) ----------

func (in *Interp) setElem(a *Agg, i int, v Value) {
	if a.pers && in.initDepth == 0 {
		in.journal = append(in.journal, undoRec{agg: a, idx: i, old: a.e[i]})
	}
	a.e[i] = v
}

// storeVal stores v into a.e[i] with value semantics (aggregates are copied in place).
func (in *Interp) storeVal(a *Agg, i int, v Value) {
	if src, ok := v.(*Agg); ok && src != nil {
		if dst, ok := a.e[i].(*Agg); ok && dst != nil && len(dst.e) == len(src.e) {
			if dst == src {
				return
			}
			for k := range src.e {
				in.storeVal(dst, k, src.e[k])
			}
			return
		}
		n := cloneVal(src).(*Agg)
		in.markPers(n)
		in.setElem(a, i, n)
		return
	}
	in.setElem(a, i, v)
}

func (in *Interp) markPers(a *Agg) {
	if in.initDepth > 0 {
		a.pers = true
		for _, e := range a.e {
			if x, ok := e.(*Agg); ok && x != nil {
				in.markPers(x)
			}
		}
	}
}

func (in *Interp) newAgg(n int) *Agg {
	return &Agg{e: make([]Value, n), pers: in.initDepth > 0}
}

func (in *Interp) newCell(v Value) *Agg {
	return &Agg{e: []Value{v}, pers: in.initDepth > 0}
}

func (in *Interp) load(p Ptr) Value {
	if p.obj == nil {
		in.goPanicStr("runtime error: invalid memory address or nil pointer dereference")
	}
	v := p.obj.e[p.idx]
	if a, ok := v.(*Agg); ok && a != nil {
		c := cloneVal(a).(*Agg)
		in.markPers(c)
		return c
	}
	return v
}

func (in *Interp) store(p Ptr, v Value) {
	if p.obj == nil {
		in.goPanicStr("runtime error: invalid memory address or nil pointer dereference")
	}
	in.storeVal(p.obj, p.idx, v)
}

func (in *Interp) rollback() {
	for i := len(in.journal) - 1; i >= 0; i-- {
		u := in.journal[i]
		if u.agg != nil {
			u.agg.e[u.idx] = u.old
		} else if u.m != nil {
			u.m.ents, u.m.idx, u.m.sym, u.m.n = u.ms.ents, u.ms.idx, u.ms.sym, u.ms.n
			for k, e := range u.ms.ents {
				e.v = u.ms.vals[k]
				e.dead = u.ms.dead[k]
			}
		}
	}
	in.journal = in.journal[:0]
}

// ---------- zero values / constants ----------

func (in *Interp) zero(t types.Type) Value {
	switch u := t.Underlying().(type) {
	case *types.Basic:
		if u.Info()&types.IsString != 0 {
			return Str{}
		}
		if u.Info()&types.IsFloat != 0 {
			return Float{}
		}
		if u.Info()&types.IsComplex != 0 {
			return Complex{}
		}
		if u.Kind() == types.UnsafePointer {
			return Ptr{}
		}
		if u.Kind() == types.UntypedNil {
			return nil
		}
		w, _ := width(t)
		if w == 0 {
			return tFalse
		}
		if w > 0 {
			return C(w, 0)
		}
		return nil
	case *types.Chan:
		return (*Chan)(nil)
	case *types.Struct:
		a := in.newAgg(u.NumFields())
		for i := range a.e {
			a.e[i] = in.zero(u.Field(i).Type())
		}
		return a
	case *types.Array:
		a := in.newAgg(int(u.Len()))
		if u.Len() > 0 {
			et := u.Elem()
			if _, isAgg := in.zero(et).(*Agg); isAgg {
				for i := range a.e {
					a.e[i] = in.zero(et)
				}
			} else {
				z := in.zero(et)
				for i := range a.e {
					a.e[i] = z
				}
			}
		}
		return a
	case *types.Pointer:
		return Ptr{}
	case *types.Slice:
		return Slice{}
	case *types.Interface:
		return Iface{}
	case *types.Signature:
		return (*Closure)(nil)
	case *types.Map:
		return (*Map)(nil)
	case *types.Tuple:
		t := make(Tuple, u.Len())
		for i := range t {
			t[i] = in.zero(u.At(i).Type())
		}
		return t
	}
	in.abort("zero: unsupported type %v", t)
	return nil
}

func (in *Interp) constVal(c *ssa.Const) Value {
	if c.Value == nil {
		return in.zero(c.Type())
	}
	t := c.Type()
	if isString(t) {
		return strOf(constant.StringVal(c.Value))
	}
	if isFloat(t) {
		f, _ := constant.Float64Val(constant.ToFloat(c.Value))
		return Float{f}
	}
	if isComplex(t) {
		re, _ := constant.Float64Val(constant.Real(c.Value))
		im, _ := constant.Float64Val(constant.Imag(c.Value))
		return Complex{complex(re, im)}
	}
	w, _ := width(t)
	if w == 0 {
		return B(constant.BoolVal(c.Value))
	}
	if w > 0 {
		iv := constant.ToInt(c.Value)
		if i, ok := constant.Int64Val(iv); ok {
			return C(w, uint64(i))
		}
		u, _ := constant.Uint64Val(iv)
		return C(w, u)
	}
	in.abort("const %v of type %v", c, t)
	return nil
}

// ---------- decisions ----------

var buildMu sync.Mutex

var (
	decideProf   map[string]int
	decideProfMu sync.Mutex
)

func init() {
	if os.Getenv("GOSYM_PROF") != "" {
		decideProf = map[string]int{}
	}
}

func dumpDecideProf() {
	if decideProf == nil {
		return
	}
	type kv struct {
		k string
		v int
	}
	var l []kv
	for k, v := range decideProf {
		l = append(l, kv{k, v})
	}
	sort.Slice(l, func(i, j int) bool { return l[i].v > l[j].v })
	for i, e := range l {
		if i >= 15 {
			break
		}
		fmt.Fprintf(os.Stderr, "PROF %8d %s\n", e.v, e.k)
	}
}

// termKey renders small terms canonically (used to recognise literals already decided on this path).
func termKey(t *Term, depth int) string {
	if t.leaf() {
		return t.leafSMT()
	}
	if depth == 0 {
		return ""
	}
	k := "(" + t.op
	if t.op == "extract" || t.op == "zext" || t.op == "sext" {
		k += fmt.Sprintf("%d.%d", t.hi, t.lo)
	}
	for _, a := range t.args {
		ak := termKey(a, depth-1)
		if ak == "" {
			return ""
		}
		k += " " + ak
	}
	return k + ")"
}

func (in *Interp) noteLiteral(c *Term) {
	neg := false
	for c.op == "not" {
		c = c.args[0]
		neg = !neg
	}
	if c.op == "and" && !neg {
		in.noteLiteral(c.args[0])
		in.noteLiteral(c.args[1])
		return
	}
	if c.op == "or" && neg {
		in.noteLiteral(Not(c.args[0]))
		in.noteLiteral(Not(c.args[1]))
		return
	}
	if k := termKey(c, 3); k != "" {
		if in.lits == nil {
			in.lits = map[string]bool{}
		}
		in.lits[k] = !neg
	}
}

// knownLiteral reports whether c's truth value is already fixed by a literal of the path condition.
func (in *Interp) knownLiteral(c *Term) (val bool, ok bool) {
	neg := false
	for c.op == "not" {
		c = c.args[0]
		neg = !neg
	}
	if in.lits == nil {
		return false, false
	}
	k := termKey(c, 3)
	if k == "" {
		return false, false
	}
	v, ok := in.lits[k]
	if !ok {
		return false, false
	}
	return v != neg, true
}

// varsOf collects the distinct variables of t; ok=false if there are more than limit.
func varsOf(t *Term, limit int) ([]*Term, bool) {
	var out []*Term
	seen := map[*Term]bool{}
	ok := true
	var walk func(x *Term)
	walk = func(x *Term) {
		if !ok || x.isC || seen[x] {
			return
		}
		seen[x] = true
		if x.op == "var" {
			for _, o := range out {
				if o.name == x.name {
					return
				}
			}
			if len(out) >= limit {
				ok = false
				return
			}
			out = append(out, x)
			return
		}
		for _, a := range x.args {
			walk(a)
		}
	}
	walk(t)
	return out, ok
}

func (in *Interp) assume(c *Term) {
	in.sol.Assert(c)
	in.pc = append(in.pc, c)
	in.noteLiteral(c)
	if len(in.free) > 0 {
		// a new constraint may pin down variables previously found undetermined
		if vs, few := varsOf(c, 6); few {
			for _, x := range vs {
				delete(in.free, x.name)
			}
		} else {
			in.free = nil
		}
	}
	if in.model != nil && !in.evalModel(c) {
		in.model = nil
	}
}

func (in *Interp) evalModel(c *Term) bool {
	return evalTerm(c, in.model, map[*Term]uint64{}) != 0
}

// feasible decides whether PC ∧ c is satisfiable. A model of the path condition is cached: when it
// satisfies c no query is needed. Invariant: in.model (if non-nil) satisfies every constraint assumed so far.
func (in *Interp) feasible(c *Term) string {
	if c.isC {
		if c.c != 0 {
			return "sat"
		}
		return "unsat"
	}
	if in.model != nil && in.evalModel(c) {
		in.modelHits++
		return "sat"
	}
	if v, ok := in.knownLiteral(c); ok {
		in.litHits++
		if v {
			return "sat"
		}
		return "unsat"
	}
	// variables already known to be uniquely determined by the path condition
	vs, few := varsOf(c, 3)
	if few && len(in.fixed) > 0 {
		all := true
		for _, x := range vs {
			if _, ok := in.fixed[x.name]; !ok {
				all = false
				break
			}
		}
		if all {
			in.litHits++
			if evalTerm(c, in.fixed, map[*Term]uint64{}) != 0 {
				return "sat"
			}
			return "unsat"
		}
	}
	// single-variable condition contradicting the cached model: first ask whether the variable is
	// uniquely determined by the path condition; if so this and all later conditions on it are decided.
	if few && in.model != nil {
		for _, x := range vs {
			if _, ok := in.fixed[x.name]; ok || in.free[x.name] {
				continue
			}
			v := in.model[x.name] & maskB(x.w)
			if in.sol.CheckWith(Not(eqConst(x, v))) == "unsat" {
				if in.fixed == nil {
					in.fixed = map[string]uint64{}
				}
				in.fixed[x.name] = v
			} else {
				if in.free == nil {
					in.free = map[string]bool{}
				}
				in.free[x.name] = true
			}
		}
		all := true
		for _, x := range vs {
			if _, ok := in.fixed[x.name]; !ok {
				all = false
			}
		}
		if all {
			if evalTerm(c, in.fixed, map[*Term]uint64{}) != 0 {
				return "sat"
			}
			return "unsat"
		}
	}
	if decideProf != nil {
		w := "?"
		if in.curFrame != nil {
			w = in.curFrame.fn.String()
		}
		decideProfMu.Lock()
		decideProf[w]++
		decideProfMu.Unlock()
	}
	in.sol.Push()
	in.sol.Assert(c)
	r := in.sol.Check()
	if r == "sat" && in.model == nil {
		in.model = in.sol.Values(in.sol.DeclaredNames())
	}
	in.sol.Pop()
	return r
}

// decide forks on a symbolic boolean.
func (in *Interp) decide(c *Term) bool {
	if c.isC {
		return c.c != 0
	}
	d := len(in.taken)
	if d < len(in.prefix) {
		dec := in.prefix[d]
		if dec.Kind != 'b' {
			in.abort("replay divergence: expected branch decision at depth %d, have %c", d, dec.Kind)
		}
		in.taken = append(in.taken, dec)
		if dec.Val&1 != 0 {
			in.assume(c)
		} else {
			in.assume(Not(c))
		}
		if dec.Val == 2 || dec.Val == 3 { // marks two-sided decisions (val 2 = false, 3 = true)
			in.twoSided++
		}
		in.prefixDone()
		return dec.Val&1 != 0
	}
	if d >= in.lem.MaxDecisions {
		in.abort("decision budget (%d) exceeded", in.lem.MaxDecisions)
	}
	rt := in.feasible(c)
	var rf string
	if rt == "unsat" {
		rf = "sat" // PC is satisfiable by invariant
	} else {
		rf = in.feasible(Not(c))
	}
	if rt == "unknown" || rf == "unknown" {
		in.lem.noteUnknown()
		// keep both sides (sound: explores a superset); mark path
		if rt == "unknown" {
			rt = "sat"
		}
		if rf == "unknown" {
			rf = "sat"
		}
	}
	if rt != "sat" && rf != "sat" {
		panic(stopPath{"infeasible"})
	}
	ch := rt == "sat"
	both := rt == "sat" && rf == "sat"
	val := int64(0)
	if ch {
		val = 1
	}
	if both {
		in.twoSided++
		alt := append(append([]Decision{}, in.taken...), Decision{'b', 2}) // other side: false, two-sided
		in.newAlts = append(in.newAlts, alt)
		val = 3
	}
	in.taken = append(in.taken, Decision{'b', val})
	if ch {
		in.assume(c)
	} else {
		in.assume(Not(c))
	}
	return ch
}

// prefixDone runs when the last forced decision of the prefix has been replayed: the path condition must
// be satisfiable (it was when the alternative was recorded). This guards against any nondeterminism in
// the engine itself, and primes the model cache.
func (in *Interp) prefixDone() {
	if len(in.taken) != len(in.prefix) {
		return
	}
	r := in.sol.Check()
	switch r {
	case "sat":
		in.model = in.sol.Values(in.sol.DeclaredNames())
	case "unsat":
		in.abort("replayed decision prefix is infeasible (engine nondeterminism)")
	default:
		in.lem.noteUnknown()
	}
}

// hint records (or, when replaying, retrieves) an auxiliary value that steers the engine's own search
// order, so that control flow never depends on the state of the model cache.
func (in *Interp) hint(compute func() int64) int64 {
	d := len(in.taken)
	if d < len(in.prefix) {
		dec := in.prefix[d]
		if dec.Kind != 'v' {
			in.abort("replay divergence: expected hint at depth %d, have %c", d, dec.Kind)
		}
		in.taken = append(in.taken, dec)
		return dec.Val
	}
	v := compute()
	in.taken = append(in.taken, Decision{'v', v})
	return v
}

// ensureModel makes sure a model of the current path condition is cached.
func (in *Interp) ensureModel() bool {
	if in.model != nil {
		return true
	}
	if in.sol.Check() == "sat" {
		in.model = in.sol.Values(in.sol.DeclaredNames())
		return true
	}
	return false
}

// choose forks n ways (structural nondeterminism); returns the chosen index.
func (in *Interp) choose(n int) int {
	if n <= 0 {
		panic(stopPath{"empty choice"})
	}
	if n == 1 {
		return 0
	}
	if in.conc != nil {
		return in.conc.rnd.Intn(n)
	}
	d := len(in.taken)
	if d < len(in.prefix) {
		dec := in.prefix[d]
		if dec.Kind != 'c' {
			in.abort("replay divergence: expected choice at depth %d, have %c", d, dec.Kind)
		}
		in.taken = append(in.taken, dec)
		in.twoSided++
		in.prefixDone()
		return int(dec.Val)
	}
	if d >= in.lem.MaxDecisions {
		in.abort("decision budget (%d) exceeded", in.lem.MaxDecisions)
	}
	for i := n - 1; i >= 1; i-- {
		alt := append(append([]Decision{}, in.taken...), Decision{'c', int64(i)})
		in.newAlts = append(in.newAlts, alt)
	}
	in.twoSided++
	in.taken = append(in.taken, Decision{'c', 0})
	return 0
}

// concretize forks over the feasible values of a symbolic integer term; returns a concrete value.
func (in *Interp) concretize(t *Term) uint64 {
	for !t.isC {
		d := len(in.taken)
		if d < len(in.prefix) {
			dec := in.prefix[d]
			if dec.Kind != 'v' {
				in.abort("replay divergence: expected value decision at depth %d, have %c", d, dec.Kind)
			}
			// val decision followed by a branch decision
			in.taken = append(in.taken, dec)
			if in.decide(eqConst(t, uint64(dec.Val))) {
				return uint64(dec.Val) & maskB(t.w)
			}
			continue
		}
		// ask the solver for a model value (or use the cached model of the path condition)
		var v uint64
		if in.model != nil {
			v = evalTerm(t, in.model, map[*Term]uint64{})
		} else {
			r := in.sol.Check()
			if r != "sat" {
				if r == "unknown" {
					in.lem.noteUnknown()
					in.abort("solver unknown during concretisation")
				}
				panic(stopPath{"infeasible"})
			}
			in.model = in.sol.Values(in.sol.DeclaredNames())
			v = evalTerm(t, in.model, map[*Term]uint64{})
		}
		_ = d
		if in.decideWithHint(eqConst(t, v), int64(v)) {
			return v & maskB(t.w)
		}
	}
	return t.c
}

func eqConst(t *Term, v uint64) *Term {
	if t.w == 0 {
		if v != 0 {
			return t
		}
		return Not(t)
	}
	return Eq(t, C(t.w, v))
}

// decideWithHint records a 'v' decision (carrying the solver-chosen value) then a branch decision.
func (in *Interp) decideWithHint(c *Term, hint int64) bool {
	in.taken = append(in.taken, Decision{'v', hint})
	return in.decide(c)
}

func (in *Interp) modelValue(t *Term) uint64 {
	// collect vars of t
	vars := map[string]bool{}
	var walk func(x *Term, seen map[*Term]bool)
	walk = func(x *Term, seen map[*Term]bool) {
		if x.isC || seen[x] {
			return
		}
		seen[x] = true
		if x.op == "var" {
			vars[x.name] = true
			return
		}
		for _, a := range x.args {
			walk(a, seen)
		}
	}
	walk(t, map[*Term]bool{})
	var names []string
	for n := range vars {
		names = append(names, n)
	}
	m := in.sol.Values(names)
	return evalTerm(t, m, map[*Term]uint64{})
}

func (in *Interp) concInt(v Value) int {
	t, ok := v.(*Term)
	if !ok {
		in.abort("integer expected, have %T", v)
	}
	if t.isC {
		return int(sext(t.c, t.w))
	}
	c := in.concretize(t)
	return int(sext(c, t.w))
}

// ---------- frames and calls ----------

func (in *Interp) get(fr *frame, v ssa.Value) Value {
	switch x := v.(type) {
	case *ssa.Const:
		return in.constVal(x)
	case *ssa.Function:
		return &Closure{fn: x}
	case *ssa.Global:
		return Ptr{obj: in.global(x)}
	case *ssa.Builtin:
		return nil
	}
	i, ok := fr.info.slots[v]
	if !ok {
		in.abort("no slot for %s in %s", v.Name(), fr.fn)
	}
	return fr.locals[i]
}

func (in *Interp) set(fr *frame, v ssa.Value, val Value) {
	fr.locals[fr.info.slots[v]] = val
}

func (in *Interp) global(x *ssa.Global) *Agg {
	if p := x.Pkg; p != nil && !in.inited[p] {
		in.initPackage(p)
	}
	c, ok := in.globals[x]
	if !ok {
		in.initDepth++
		c = in.newCell(in.zero(x.Type().Underlying().(*types.Pointer).Elem()))
		in.initDepth--
		in.globals[x] = c
	}
	return c
}

func (in *Interp) initPackage(p *ssa.Package) {
	if in.inited[p] {
		return
	}
	in.inited[p] = true
	f := p.Func("init")
	if f != nil && f.Blocks == nil {
		// bodies are built lazily per package (see call); a package whose first use is a global read
		// (e.g. io/fs.ErrNotExist) has not been built yet
		buildMu.Lock()
		if f.Blocks == nil {
			p.Build()
		}
		buildMu.Unlock()
	}
	if f == nil || f.Blocks == nil {
		return
	}
	if skipInit[p.Pkg.Path()] {
		if h := partialInit[p.Pkg.Path()]; h != nil {
			in.initDepth++
			h(in, p)
			in.initDepth--
		}
		return
	}
	in.initDepth++
	savedSteps := in.steps
	savedFrame := in.curFrame
	in.curFrame = nil
	defer func() {
		in.initDepth--
		in.steps = savedSteps
		in.curFrame = savedFrame
		if r := recover(); r != nil {
			if a, ok := r.(abortPath); ok {
				// a package whose initialiser cannot be interpreted: leave partially initialised, record
				in.lem.noteInitFailure(p.Pkg.Path(), a.why)
				return
			}
			if gp, ok := r.(*goPanic); ok {
				in.lem.noteInitFailure(p.Pkg.Path(), "panic: "+describe(gp.val, 3))
				return
			}
			panic(r)
		}
	}()
	in.steps = -50000000
	in.call(f, nil, nil)
}

func (in *Interp) call(fn *ssa.Function, args []Value, free []Value) (ret Value) {
	fi, okfi := in.fninfo[fn]
	if !okfi {
		// SSA function bodies are built lazily, one package at a time; the global lock makes sure no
		// worker ever observes a function of a package that another worker is still building.
		buildMu.Lock()
		if fn.Blocks == nil && fn.Pkg != nil {
			fn.Pkg.Build()
		}
		buildMu.Unlock()
		fi = in.info(fn)
	}
	if !fi.resolved {
		fi.intercept = resolveIntercept(fn)
		fi.resolved = true
	}
	if fi.intercept != nil && in.bypass == fn {
		in.bypass = nil // an intercept asked for the real body (e.g. intercepts_unicode.go outside Latin-1)
	} else if fi.intercept != nil {
		if in.intercepts != nil {
			in.intercepts[fn.String()]++
		}
		return fi.intercept(in, fn, args)
	}
	if fn.Blocks == nil {
		in.abort("no body for %s (called from %s)", fn.String(), in.where())
	}
	if in.funcsSeen != nil {
		in.funcsSeen[fn] = true
	}
	in.depth++
	if in.depth > 2000 {
		in.abort("call depth exceeded in %s", fn)
	}
	fr := &frame{fn: fn, info: fi, locals: make([]Value, fi.n), caller: in.curFrame}
	in.curFrame = fr
	k := 0
	for range fn.Params {
		if k < len(args) {
			fr.locals[k] = args[k]
		}
		k++
	}
	for i := range fn.FreeVars {
		fr.locals[k] = free[i]
		k++
	}
	defer func() {
		in.depth--
		in.curFrame = fr.caller
		if r := recover(); r != nil {
			gp, ok := r.(*goPanic)
			if !ok {
				panic(r)
			}
			// run deferred calls while panicking
			in.panics = append(in.panics, gp)
			in.curFrame = fr
			in.depth++
			func() {
				defer func() {
					in.panics = in.panics[:len(in.panics)-1]
					in.depth--
					in.curFrame = fr.caller
				}()
				in.runDefers(fr)
			}()
			if !gp.recovered {
				panic(gp)
			}
			// recovered: resume at the Recover block (loads named results) or return zero values
			if fn.Recover != nil {
				in.depth++
				in.curFrame = fr
				func() {
					defer func() { in.depth--; in.curFrame = fr.caller }()
					ret = in.run(fr, fn.Recover)
				}()
			} else {
				res := fn.Signature.Results()
				switch res.Len() {
				case 0:
					ret = nil
				case 1:
					ret = in.zero(res.At(0).Type())
				default:
					ret = in.zero(res)
				}
			}
		}
	}()
	return in.run(fr, fn.Blocks[0])
}

func (in *Interp) runDefers(fr *frame) {
	for len(fr.defers) > 0 {
		d := fr.defers[len(fr.defers)-1]
		fr.defers = fr.defers[:len(fr.defers)-1]
		in.applyCall(fr, d.cc, d.callee, d.args)
	}
}

func (in *Interp) run(fr *frame, b *ssa.BasicBlock) Value {
	for {
		var next *ssa.BasicBlock
		for _, ins := range b.Instrs {
			in.steps++
			if in.steps > in.maxSteps {
				in.abort("step budget (%d) exceeded in %s", in.maxSteps, fr.fn)
			}
			switch x := ins.(type) {
			case *ssa.Phi:
				for i, p := range b.Preds {
					if p == fr.prev {
						in.set(fr, x, in.get(fr, x.Edges[i]))
						break
					}
				}
			case *ssa.If:
				c, ok := in.get(fr, x.Cond).(*Term)
				if !ok {
					in.abort("If on non-term in %s", fr.fn)
				}
				if in.decide(c) {
					next = b.Succs[0]
				} else {
					next = b.Succs[1]
				}
			case *ssa.Jump:
				next = b.Succs[0]
			case *ssa.Return:
				switch len(x.Results) {
				case 0:
					return nil
				case 1:
					return in.get(fr, x.Results[0])
				default:
					t := make(Tuple, len(x.Results))
					for i, r := range x.Results {
						t[i] = in.get(fr, r)
					}
					return t
				}
			case *ssa.Store:
				p, ok := in.get(fr, x.Addr).(Ptr)
				if !ok {
					in.abort("store through non-pointer %T", in.get(fr, x.Addr))
				}
				in.store(p, in.get(fr, x.Val))
			case *ssa.MapUpdate:
				in.mapUpdate(in.get(fr, x.Map), in.get(fr, x.Key), in.get(fr, x.Value))
			case *ssa.Defer:
				cc := x.Common()
				args := make([]Value, len(cc.Args))
				for i, a := range cc.Args {
					args[i] = in.get(fr, a)
				}
				var callee Value
				if _, isB := cc.Value.(*ssa.Builtin); !isB {
					callee = in.get(fr, cc.Value)
				}
				target := fr
				if x.DeferStack != nil {
					if tf, ok := in.get(fr, x.DeferStack).(*frame); ok && tf != nil {
						target = tf
					}
				}
				target.defers = append(target.defers, deferred{cc: cc, callee: callee, args: args})
			case *ssa.RunDefers:
				in.runDefers(fr)
			case *ssa.Panic:
				v := in.get(fr, x.X)
				panic(&goPanic{val: v, trace: in.where()})
			case *ssa.Go:
				in.goStmt(fr, x)
			case *ssa.Send:
				in.chanSend(in.get(fr, x.Chan), in.get(fr, x.X))
			case *ssa.DebugRef:
			case ssa.Value:
				in.set(fr, x, in.eval(fr, x))
			default:
				in.abort("unsupported instruction %T", ins)
			}
		}
		if next == nil {
			in.abort("fell off block in %s", fr.fn)
		}
		fr.prev, b = b, next
	}
}

func (in *Interp) eval(fr *frame, v ssa.Value) Value {
	switch x := v.(type) {
	case *ssa.Alloc:
		return Ptr{obj: in.newCell(in.zero(x.Type().Underlying().(*types.Pointer).Elem()))}
	case *ssa.UnOp:
		a := in.get(fr, x.X)
		switch x.Op {
		case token.MUL:
			if sp, ok := a.(SymPtr); ok {
				if r, ok := in.symSelect(sp.obj.e, sp.off, sp.n, sp.idx); ok {
					return r
				}
				i := in.boundedIndex(sp.idx, sp.n)
				return in.load(Ptr{obj: sp.obj, idx: sp.off + i})
			}
			p, ok := a.(Ptr)
			if !ok {
				in.abort("deref of %T", a)
			}
			return in.load(p)
		case token.NOT:
			return Not(a.(*Term))
		case token.SUB:
			switch t := a.(type) {
			case *Term:
				return Neg(t)
			case Float:
				return Float{-t.f}
			}
		case token.XOR:
			return BvNot(a.(*Term))
		case token.ARROW:
			val, ok := in.chanRecv(a)
			if x.CommaOk {
				return Tuple{val, B(ok)}
			}
			return val
		}
		in.abort("unop %s on %T", x.Op, a)
	case *ssa.FieldAddr:
		p, ok := in.get(fr, x.X).(Ptr)
		if !ok {
			in.abort("FieldAddr on %T", in.get(fr, x.X))
		}
		if p.obj == nil {
			in.goPanicStr("runtime error: invalid memory address or nil pointer dereference")
		}
		a, ok := p.obj.e[p.idx].(*Agg)
		if !ok || a == nil {
			in.abort("FieldAddr: target is %T in %s", p.obj.e[p.idx], fr.fn)
		}
		return Ptr{obj: a, idx: x.Field}
	case *ssa.Field:
		a, ok := in.get(fr, x.X).(*Agg)
		if !ok {
			in.abort("Field on %T", in.get(fr, x.X))
		}
		return cloneVal(a.e[x.Field])
	case *ssa.IndexAddr:
		base := in.get(fr, x.X)
		idx := normIndex(in.get(fr, x.Index), x.Index.Type())
		symIdx := false
		if it, ok := idx.(*Term); ok && !it.isC && onlyLoaded(x) {
			symIdx = true
		}
		switch bv := base.(type) {
		case Slice:
			if symIdx && bv.len > 0 && bv.len <= 256 {
				return SymPtr{obj: bv.arr, off: bv.off, n: bv.len, idx: idx.(*Term)}
			}
			i := in.boundedIndex(idx, bv.len)
			return Ptr{obj: bv.arr, idx: bv.off + i}
		case Ptr:
			if bv.obj == nil {
				in.goPanicStr("runtime error: invalid memory address or nil pointer dereference")
			}
			a := bv.obj.e[bv.idx].(*Agg)
			if symIdx && len(a.e) > 0 && len(a.e) <= 256 {
				return SymPtr{obj: a, off: 0, n: len(a.e), idx: idx.(*Term)}
			}
			i := in.boundedIndex(idx, len(a.e))
			return Ptr{obj: a, idx: i}
		}
		in.abort("IndexAddr on %T", base)
	case *ssa.Index:
		base := in.get(fr, x.X)
		idx := normIndex(in.get(fr, x.Index), x.Index.Type())
		switch bv := base.(type) {
		case Str:
			return in.strIndex(bv, idx)
		case *Agg:
			it := idx.(*Term)
			if !it.isC && len(bv.e) <= 256 {
				if r, ok := in.symSelect(bv.e, 0, len(bv.e), it); ok {
					return r
				}
			}
			i := in.boundedIndex(idx, len(bv.e))
			return cloneVal(bv.e[i])
		}
		in.abort("Index on %T", base)
	case *ssa.Lookup:
		base := in.get(fr, x.X)
		if s, ok := base.(Str); ok {
			return in.strIndex(s, normIndex(in.get(fr, x.Index), x.Index.Type()))
		}
		m, _ := base.(*Map)
		res, found := in.mapLookup(m, in.get(fr, x.Index))
		if !found {
			res = in.zero(x.X.Type().Underlying().(*types.Map).Elem())
		} else {
			res = cloneVal(res)
		}
		if x.CommaOk {
			return Tuple{res, B(found)}
		}
		return res
	case *ssa.Slice:
		return in.sliceOp(fr, x)
	case *ssa.MakeSlice:
		n := in.concInt(in.get(fr, x.Len))
		c := in.concInt(in.get(fr, x.Cap))
		if n < 0 || c < n {
			in.goPanicStr("runtime error: makeslice: len out of range")
		}
		if c > 1<<22 {
			in.abort("makeslice too large (%d)", c)
		}
		return in.makeSlice(x.Type().Underlying().(*types.Slice).Elem(), n, c)
	case *ssa.BinOp:
		return in.binop(x.Op, x.X.Type(), in.get(fr, x.X), in.get(fr, x.Y), x.Y.Type())
	case *ssa.Convert:
		return in.convert(in.get(fr, x.X), x.X.Type(), x.Type())
	case *ssa.ChangeType:
		return in.get(fr, x.X)
	case *ssa.ChangeInterface:
		return in.get(fr, x.X)
	case *ssa.MakeMap:
		return &Map{idx: map[string]*mapEnt{}, pers: in.initDepth > 0}
	case *ssa.MakeChan:
		n := in.concInt(in.get(fr, x.Size))
		return &Chan{cap: n, zero: in.zero(x.Type().Underlying().(*types.Chan).Elem())}
	case *ssa.TypeAssert:
		return in.typeAssert(x, in.get(fr, x.X))
	case *ssa.MakeInterface:
		return Iface{t: x.X.Type(), v: in.get(fr, x.X)}
	case *ssa.Extract:
		return in.get(fr, x.Tuple).(Tuple)[x.Index]
	case *ssa.MakeClosure:
		c := &Closure{fn: x.Fn.(*ssa.Function)}
		for _, b := range x.Bindings {
			c.free = append(c.free, in.get(fr, b))
		}
		return c
	case *ssa.Call:
		return in.doCall(fr, x.Common())
	case *ssa.Range:
		return in.rangeStart(in.get(fr, x.X))
	case *ssa.Next:
		return in.rangeNext(x, in.get(fr, x.Iter).(*Iter))
	case *ssa.Select:
		return in.selectStmt(fr, x)
	case *ssa.SliceToArrayPointer:
		s := in.get(fr, x.X).(Slice)
		n := int(x.Type().Underlying().(*types.Pointer).Elem().Underlying().(*types.Array).Len())
		if s.len < n {
			in.goPanicStr("runtime error: cannot convert slice to array pointer")
		}
		if s.arr != nil && s.off == 0 && len(s.arr.e) == n {
			return Ptr{obj: in.newCell(s.arr)}
		}
		in.abort("SliceToArrayPointer on sub-slice")
	case *ssa.MultiConvert:
		return in.convert(in.get(fr, x.X), x.X.Type(), x.Type())
	}
	in.abort("unsupported value %T: %s", v, v)
	return nil
}

func (in *Interp) makeSlice(et types.Type, n, c int) Slice {
	a := in.newAgg(c)
	if c > 0 {
		z := in.zero(et)
		if _, isAgg := z.(*Agg); isAgg {
			a.e[0] = z
			for i := 1; i < c; i++ {
				a.e[i] = in.zero(et)
			}
		} else {
			for i := range a.e {
				a.e[i] = z
			}
		}
	}
	return Slice{arr: a, len: n, cap: c}
}

// normIndex zero-extends an index of a narrow *unsigned* type (e.g. utf8.first[s[0]] with a byte index) to 64 bits;
// boundedIndex/symSelect/strIndex sign-extend, which is only right for signed index types.
func normIndex(idx Value, t types.Type) Value {
	it, ok := idx.(*Term)
	if !ok || it.w == 0 || it.w >= 64 {
		return idx
	}
	if w, signed := width(t); w > 0 && !signed {
		return Ext(it, 64, false)
	}
	return idx
}

// boundedIndex returns a concrete in-range index, forking on symbolic indexes; out of range panics.
func (in *Interp) boundedIndex(idx Value, n int) int {
	t := idx.(*Term)
	if t.isC {
		i := sext(t.c, t.w)
		if i < 0 || i >= int64(n) {
			in.goPanicStr(fmt.Sprintf("runtime error: index out of range [%d] with length %d", i, n))
		}
		return int(i)
	}
	t64 := Ext(t, 64, true)
	if !in.decide(Bin("bvult", t64, C(64, uint64(n)))) {
		in.goPanicStr(fmt.Sprintf("runtime error: index out of range [symbolic] with length %d", n))
	}
	return int(in.concretize(t64))
}

// SymPtr is the address of an element selected by a symbolic index; it is only ever loaded from.
type SymPtr struct {
	obj    *Agg
	off, n int
	idx    *Term
}

// onlyLoaded reports whether every use of the IndexAddr is a load.
func onlyLoaded(x *ssa.IndexAddr) bool {
	refs := x.Referrers()
	if refs == nil || len(*refs) == 0 {
		return false
	}
	for _, r := range *refs {
		u, ok := r.(*ssa.UnOp)
		if !ok || u.Op != token.MUL {
			return false
		}
	}
	return true
}

// symSelect builds an ite-chain for a symbolic index over scalar elements (with bounds obligation).
func (in *Interp) symSelect(elems []Value, off, n int, it *Term) (Value, bool) {
	if n == 0 {
		return nil, false
	}
	for i := 0; i < n; i++ {
		if _, ok := elems[off+i].(*Term); !ok {
			return nil, false
		}
	}
	t64 := Ext(it, 64, true)
	if !in.decide(Bin("bvult", t64, C(64, uint64(n)))) {
		in.goPanicStr(fmt.Sprintf("runtime error: index out of range [symbolic] with length %d", n))
	}
	if r := constTableSelect(elems, off, n, t64); r != nil {
		return r, true
	}
	r := elems[off+n-1].(*Term)
	for i := n - 2; i >= 0; i-- {
		r = Ite(Eq(t64, C(64, uint64(i))), elems[off+i].(*Term), r)
	}
	return r, true
}

// constTableSelect encodes a symbolic index into a table of *constants* (strings.asciiSpace, unicode.properties,
// utf8.first, ...) as an ite over the maximal runs of equal entries, with the most frequent entry as the default:
// the same function as the entry-by-entry chain, but a handful of range tests instead of n equalities (z3 4.8.12
// needs seconds per query once a few 256-deep chains are on the assertion stack). nil: not a constant table.
func constTableSelect(elems []Value, off, n int, t64 *Term) *Term {
	if n < 8 {
		return nil
	}
	w := elems[off].(*Term).w
	freq := map[uint64]int{}
	for i := 0; i < n; i++ {
		e := elems[off+i].(*Term)
		if !e.isC || e.w != w || w == 0 {
			return nil
		}
		freq[e.c]++
	}
	def, best := uint64(0), -1
	for v, k := range freq {
		if k > best || (k == best && v < def) {
			def, best = v, k
		}
	}
	r := C(w, def)
	for hi := n - 1; hi >= 0; {
		v := elems[off+hi].(*Term).c
		lo := hi
		for lo > 0 && elems[off+lo-1].(*Term).c == v {
			lo--
		}
		if v != def {
			var c *Term
			if lo == hi {
				c = Eq(t64, C(64, uint64(lo)))
			} else {
				c = And(Bin("bvule", C(64, uint64(lo)), t64), Bin("bvule", t64, C(64, uint64(hi))))
			}
			r = Ite(c, C(w, v), r)
		}
		hi = lo - 1
	}
	return r
}

func (in *Interp) strIndex(s Str, idx Value) Value {
	if s.opaque {
		in.abort("index into opaque string")
	}
	t := idx.(*Term)
	if !t.isC && s.Len() <= 64 && s.Len() > 0 {
		t64 := Ext(t, 64, true)
		if !in.decide(Bin("bvult", t64, C(64, uint64(s.Len())))) {
			in.goPanicStr("runtime error: index out of range (string)")
		}
		r := s.At(s.Len() - 1)
		for i := s.Len() - 2; i >= 0; i-- {
			r = Ite(Eq(t64, C(64, uint64(i))), s.At(i), r)
		}
		return r
	}
	if cs, ok := s.Conc(); ok && !t.isC && len(cs) > 64 && len(cs) <= 256 {
		// concrete lookup table (e.g. encoding/hex.reverseHexTable): ite chain over the entries that differ
		// from the most frequent byte instead of forking once per feasible index
		t64 := Ext(t, 64, true)
		if !in.decide(Bin("bvult", t64, C(64, uint64(len(cs))))) {
			in.goPanicStr("runtime error: index out of range (string)")
		}
		var freq [256]int
		def := 0
		for i := 0; i < len(cs); i++ {
			freq[cs[i]]++
			if freq[cs[i]] > freq[def] {
				def = int(cs[i])
			}
		}
		if len(cs)-freq[def] <= 64 {
			r := C(8, uint64(def))
			for i := len(cs) - 1; i >= 0; i-- {
				if int(cs[i]) != def {
					r = Ite(Eq(t64, C(64, uint64(i))), C(8, uint64(cs[i])), r)
				}
			}
			return r
		}
	}
	i := in.boundedIndex(idx, s.Len())
	return s.At(i)
}

func (in *Interp) sliceOp(fr *frame, x *ssa.Slice) Value {
	lo, hi, mx := -1, -1, -1
	if x.Low != nil {
		lo = in.concInt(in.get(fr, x.Low))
	}
	if x.High != nil {
		hi = in.concInt(in.get(fr, x.High))
	}
	if x.Max != nil {
		mx = in.concInt(in.get(fr, x.Max))
	}
	oob := func(a, b, c int) {
		in.goPanicStr(fmt.Sprintf("runtime error: slice bounds out of range [%d:%d] with capacity %d", a, b, c))
	}
	switch bv := in.get(fr, x.X).(type) {
	case Str:
		if bv.opaque {
			// an opaque string with a known concrete prefix can be sliced inside that prefix
			// (e.g. description[:1] / description[1:] of a rendered message)
			if lo < 0 {
				lo = 0
			}
			if hi >= 0 && lo <= hi && hi <= len(bv.pre) {
				return strOf(bv.pre[lo:hi])
			}
			if hi < 0 && lo <= len(bv.pre) {
				return Str{opaque: true, s: bv.s, pre: bv.pre[lo:]}
			}
			in.abort("slice of opaque string")
		}
		if lo < 0 {
			lo = 0
		}
		if hi < 0 {
			hi = bv.Len()
		}
		if lo > hi || hi > bv.Len() {
			oob(lo, hi, bv.Len())
		}
		return bv.Slice(lo, hi)
	case Slice:
		if lo < 0 {
			lo = 0
		}
		if hi < 0 {
			hi = bv.len
		}
		c := bv.cap
		if mx >= 0 {
			if mx > bv.cap || hi > mx {
				oob(lo, hi, bv.cap)
			}
			c = mx
		}
		if lo > hi || hi > bv.cap {
			oob(lo, hi, bv.cap)
		}
		if bv.arr == nil {
			return Slice{}
		}
		return Slice{arr: bv.arr, off: bv.off + lo, len: hi - lo, cap: c - lo}
	case Ptr: // pointer to array
		if bv.obj == nil {
			in.goPanicStr("runtime error: invalid memory address or nil pointer dereference")
		}
		a := bv.obj.e[bv.idx].(*Agg)
		if lo < 0 {
			lo = 0
		}
		if hi < 0 {
			hi = len(a.e)
		}
		c := len(a.e)
		if mx >= 0 {
			c = mx
		}
		if lo > hi || hi > len(a.e) || c > len(a.e) {
			oob(lo, hi, len(a.e))
		}
		return Slice{arr: a, off: lo, len: hi - lo, cap: c - lo}
	}
	in.abort("slice of %T", in.get(fr, x.X))
	return nil
}

func (in *Interp) typeAssert(x *ssa.TypeAssert, v Value) Value {
	ifc, ok := v.(Iface)
	if !ok {
		in.abort("TypeAssert on %T", v)
	}
	okA := false
	_, toIface := x.AssertedType.Underlying().(*types.Interface)
	if ifc.t != nil {
		if toIface {
			okA = types.Implements(ifc.t, x.AssertedType.Underlying().(*types.Interface))
		} else {
			okA = types.Identical(ifc.t, x.AssertedType)
		}
	}
	var res Value
	if okA {
		if toIface {
			res = ifc
		} else {
			res = ifc.v
		}
	} else {
		if !x.CommaOk {
			ts := "nil"
			if ifc.t != nil {
				ts = ifc.t.String()
			}
			in.goPanicStr(fmt.Sprintf("interface conversion: interface is %s, not %s", ts, x.AssertedType))
		}
		res = in.zero(x.AssertedType)
	}
	if x.CommaOk {
		return Tuple{res, B(okA)}
	}
	return res
}

func (in *Interp) doCall(fr *frame, cc *ssa.CallCommon) Value {
	args := make([]Value, len(cc.Args))
	for i, a := range cc.Args {
		args[i] = in.get(fr, a)
	}
	if _, ok := cc.Value.(*ssa.Builtin); ok {
		return in.applyCall(fr, cc, nil, args)
	}
	return in.applyCall(fr, cc, in.get(fr, cc.Value), args)
}

func (in *Interp) applyCall(fr *frame, cc *ssa.CallCommon, callee Value, args []Value) Value {
	if b, ok := cc.Value.(*ssa.Builtin); ok {
		return in.builtin(fr, b, cc, args)
	}
	if cc.IsInvoke() {
		ifc, ok := callee.(Iface)
		if !ok {
			in.abort("invoke on %T", callee)
		}
		return in.invoke(ifc, cc.Method, args)
	}
	c, ok := callee.(*Closure)
	if !ok {
		in.abort("call of %T", callee)
	}
	return in.callClosure(c, args)
}

func (in *Interp) callClosure(c *Closure, args []Value) Value {
	if c == nil {
		in.goPanicStr("runtime error: invalid memory address or nil pointer dereference (nil func)")
	}
	if c.native != nil {
		return c.native(in, args)
	}
	return in.call(c.fn, args, c.free)
}

func (in *Interp) invoke(ifc Iface, m *types.Func, args []Value) Value {
	if ifc.t == nil {
		in.goPanicStr("runtime error: invalid memory address or nil pointer dereference (nil interface invoke " + m.Name() + ") at " + in.where())
	}
	fn := in.lookupMethod(ifc.t, m.Pkg(), m.Name())
	if fn == nil {
		in.abort("no method %s on %s", m.Name(), ifc.t)
	}
	return in.call(fn, append([]Value{ifc.v}, args...), nil)
}

func (in *Interp) lookupMethod(t types.Type, pkg *types.Package, name string) *ssa.Function {
	sel := in.prog.MethodSets.MethodSet(t).Lookup(pkg, name)
	if sel == nil {
		return nil
	}
	return in.prog.MethodValue(sel)
}

// callMethodByName invokes method name on an interface value (used by intercepts).
func (in *Interp) callMethodByName(ifc Iface, name string, args ...Value) Value {
	ms := in.prog.MethodSets.MethodSet(ifc.t)
	for i := 0; i < ms.Len(); i++ {
		if ms.At(i).Obj().Name() == name {
			fn := in.prog.MethodValue(ms.At(i))
			return in.call(fn, append([]Value{ifc.v}, args...), nil)
		}
	}
	in.abort("no method %s on %s", name, ifc.t)
	return nil
}

func (in *Interp) hasMethod(t types.Type, name string) bool {
	if t == nil {
		return false
	}
	ms := in.prog.MethodSets.MethodSet(t)
	for i := 0; i < ms.Len(); i++ {
		if ms.At(i).Obj().Name() == name {
			return true
		}
	}
	return false
}

// ---------- operators ----------

func (in *Interp) strEq(a, b Str) *Term {
	if a.opaque || b.opaque {
		in.abort("comparison of opaque string")
	}
	if a.Len() != b.Len() {
		return tFalse
	}
	if a.b == nil && b.b == nil {
		return B(a.s == b.s)
	}
	r := tTrue
	for i := a.Len() - 1; i >= 0; i-- {
		r = And(Eq(a.At(i), b.At(i)), r)
		if r.isFalse() {
			return r
		}
	}
	return r
}

// strLess builds lexicographic a < b.
func (in *Interp) strLess(a, b Str) *Term {
	if a.opaque || b.opaque {
		in.abort("comparison of opaque string")
	}
	if a.b == nil && b.b == nil {
		return B(a.s < b.s)
	}
	n := a.Len()
	if b.Len() < n {
		n = b.Len()
	}
	// after common prefix equal: a<b iff len(a)<len(b)
	r := B(a.Len() < b.Len())
	for i := n - 1; i >= 0; i-- {
		x, y := a.At(i), b.At(i)
		r = Ite(Eq(x, y), r, Bin("bvult", x, y))
	}
	return r
}

func (in *Interp) valEq(a, b Value) *Term {
	switch x := a.(type) {
	case *Term:
		y, ok := b.(*Term)
		if !ok {
			in.abort("valEq term vs %T", b)
		}
		return Eq(x, y)
	case Str:
		return in.strEq(x, b.(Str))
	case Float:
		return B(x.f == b.(Float).f)
	case Complex:
		return B(x.c == b.(Complex).c)
	case Ptr:
		y, ok := b.(Ptr)
		if !ok {
			in.abort("valEq ptr vs %T", b)
		}
		return B(x == y)
	case Iface:
		y, ok := b.(Iface)
		if !ok {
			// comparison iface vs concrete shouldn't occur in SSA
			in.abort("valEq iface vs %T", b)
		}
		if x.t == nil || y.t == nil {
			return B(x.t == nil && y.t == nil)
		}
		if !types.Identical(x.t, y.t) {
			return tFalse
		}
		if !types.Comparable(x.t) {
			in.goPanicStr("runtime error: comparing uncomparable type " + x.t.String())
		}
		return in.valEq(x.v, y.v)
	case *Agg:
		y := b.(*Agg)
		r := tTrue
		for i := range x.e {
			r = And(r, in.valEq(x.e[i], y.e[i]))
			if r.isFalse() {
				return r
			}
		}
		return r
	case *Chan:
		return B(x == b.(*Chan))
	case *Map:
		y, _ := b.(*Map)
		return B(x == y)
	case *Closure:
		y, _ := b.(*Closure)
		return B(x == nil && y == nil)
	case Slice:
		y := b.(Slice)
		return B(x.arr == nil && y.arr == nil)
	case nil:
		return B(b == nil)
	}
	in.abort("valEq on %T", a)
	return nil
}

func (in *Interp) binop(op token.Token, xt types.Type, a, b Value, yt types.Type) Value {
	switch op {
	case token.EQL:
		return in.nilAwareEq(a, b)
	case token.NEQ:
		return Not(in.nilAwareEq(a, b))
	}
	switch x := a.(type) {
	case Str:
		y := b.(Str)
		switch op {
		case token.ADD:
			return strConcat(x, y)
		case token.LSS:
			return in.strLess(x, y)
		case token.GTR:
			return in.strLess(y, x)
		case token.LEQ:
			return Not(in.strLess(y, x))
		case token.GEQ:
			return Not(in.strLess(x, y))
		}
		in.abort("string op %s", op)
	case Float:
		y, ok := b.(Float)
		if !ok {
			in.abort("float op %s with a non-constant operand (%T) at %s", op, b, in.where())
		}
		switch op {
		case token.ADD:
			return in.roundF(xt, x.f+y.f)
		case token.SUB:
			return in.roundF(xt, x.f-y.f)
		case token.MUL:
			return in.roundF(xt, x.f*y.f)
		case token.QUO:
			return in.roundF(xt, x.f/y.f)
		case token.LSS:
			return B(x.f < y.f)
		case token.LEQ:
			return B(x.f <= y.f)
		case token.GTR:
			return B(x.f > y.f)
		case token.GEQ:
			return B(x.f >= y.f)
		}
		in.abort("float op %s", op)
	case *Term:
		y, ok := b.(*Term)
		if !ok {
			in.abort("binop %s: term vs %T", op, b)
		}
		w, signed := width(xt)
		if w == 0 {
			switch op {
			case token.LAND, token.AND:
				return And(x, y)
			case token.LOR, token.OR:
				return Or(x, y)
			}
			in.abort("bool op %s", op)
		}
		switch op {
		case token.ADD:
			return Bin("bvadd", x, y)
		case token.SUB:
			return Bin("bvsub", x, y)
		case token.MUL:
			if !x.isC && !y.isC {
				in.symMulDiv++
			}
			return Bin("bvmul", x, y)
		case token.QUO, token.REM:
			if y.isC {
				if y.c == 0 {
					in.goPanicStr("runtime error: integer divide by zero")
				}
			} else {
				in.symMulDiv++
				if in.decide(Eq(y, C(y.w, 0))) {
					in.goPanicStr("runtime error: integer divide by zero")
				}
			}
			if op == token.QUO {
				if signed {
					return Bin("bvsdiv", x, y)
				}
				return Bin("bvudiv", x, y)
			}
			if signed {
				return Bin("bvsrem", x, y)
			}
			return Bin("bvurem", x, y)
		case token.AND:
			return Bin("bvand", x, y)
		case token.OR:
			return Bin("bvor", x, y)
		case token.XOR:
			return Bin("bvxor", x, y)
		case token.AND_NOT:
			return Bin("bvand", x, BvNot(y))
		case token.SHL, token.SHR:
			_, ysigned := width(yt)
			if ysigned {
				if y.isC {
					if sext(y.c, y.w) < 0 {
						in.goPanicStr("runtime error: negative shift amount")
					}
				} else if in.decide(Bin("bvslt", y, C(y.w, 0))) {
					in.goPanicStr("runtime error: negative shift amount")
				}
			}
			// bring shift count to operand width, saturating
			var cnt *Term
			if y.w == x.w {
				cnt = y
			} else if y.w < x.w {
				cnt = Ext(y, x.w, false)
			} else {
				big := Bin("bvule", C(y.w, uint64(x.w)), y)
				cnt = Ite(big, C(x.w, uint64(x.w)), Ext(y, x.w, false))
			}
			if op == token.SHL {
				return Bin("bvshl", x, cnt)
			}
			if signed {
				return Bin("bvashr", x, cnt)
			}
			return Bin("bvlshr", x, cnt)
		case token.LSS:
			if signed {
				return Bin("bvslt", x, y)
			}
			return Bin("bvult", x, y)
		case token.LEQ:
			if signed {
				return Bin("bvsle", x, y)
			}
			return Bin("bvule", x, y)
		case token.GTR:
			if signed {
				return Bin("bvslt", y, x)
			}
			return Bin("bvult", y, x)
		case token.GEQ:
			if signed {
				return Bin("bvsle", y, x)
			}
			return Bin("bvule", y, x)
		}
	}
	in.abort("binop %s on %T", op, a)
	return nil
}

func (in *Interp) roundF(t types.Type, f float64) Float {
	if b, ok := t.Underlying().(*types.Basic); ok && b.Kind() == types.Float32 {
		return Float{float64(float32(f))}
	}
	return Float{f}
}

// nilAwareEq handles comparisons where one side may be an untyped nil constant.
func (in *Interp) nilAwareEq(a, b Value) *Term {
	if a == nil {
		a, b = b, a
	}
	if b == nil {
		switch x := a.(type) {
		case nil:
			return tTrue
		case Ptr:
			return B(x.obj == nil)
		case Slice:
			return B(x.arr == nil)
		case *Map:
			return B(x == nil)
		case *Closure:
			return B(x == nil)
		case Iface:
			return B(x.t == nil)
		case *Chan:
			return B(x == nil)
		}
	}
	return in.valEq(a, b)
}

func (in *Interp) convert(v Value, from, to types.Type) Value {
	fu, tu := from.Underlying(), to.Underlying()
	switch x := v.(type) {
	case *Term:
		if tw, _ := width(to); tw > 0 {
			_, fs := width(from)
			if x.w == 0 {
				in.abort("convert bool to int")
			}
			return Ext(x, tw, fs)
		}
		if tw, _ := width(to); tw == 0 {
			return x
		}
		if isFloat(to) {
			c := in.concretize(x)
			_, fs := width(from)
			if fs {
				return in.roundF(to, float64(sext(c, x.w)))
			}
			return in.roundF(to, float64(c))
		}
		if isString(to) { // rune/byte -> string
			if x.isC {
				return strOf(string(rune(sext(x.c, x.w))))
			}
			// symbolic: fork on ASCII vs. concretise
			if in.decide(Bin("bvult", Ext(x, 64, false), C(64, 0x80))) {
				return Str{b: []*Term{Ext(x, 8, false)}}
			}
			c := in.concretize(x)
			return strOf(string(rune(sext(c, x.w))))
		}
		if isUnsafePointer(to) {
			if x.isC && x.c == 0 {
				return Ptr{}
			}
			in.abort("uintptr -> unsafe.Pointer")
		}
	case Float:
		if isFloat(to) {
			return in.roundF(to, x.f)
		}
		if tw, ts := width(to); tw > 0 {
			if ts {
				return C(tw, uint64(int64(x.f)))
			}
			if x.f < 0 {
				return C(tw, uint64(int64(x.f)))
			}
			return C(tw, uint64(x.f))
		}
	case Str:
		if ts, ok := tu.(*types.Slice); ok {
			if x.opaque {
				in.abort("opaque string -> slice")
			}
			ew, _ := width(ts.Elem())
			if ew == 8 {
				ag := in.newAgg(x.Len())
				for i := 0; i < x.Len(); i++ {
					ag.e[i] = x.At(i)
				}
				return Slice{arr: ag, len: x.Len(), cap: x.Len()}
			}
			// []rune
			var rs []Value
			for pos := 0; pos < x.Len(); {
				r, sz := in.decodeRune(x, pos)
				rs = append(rs, r)
				pos += sz
			}
			ag := in.newAgg(len(rs))
			copy(ag.e, rs)
			return Slice{arr: ag, len: len(rs), cap: len(rs)}
		}
		if isString(to) {
			return x
		}
	case Slice:
		if isString(to) {
			fs := fu.(*types.Slice)
			ew, _ := width(fs.Elem())
			if ew == 8 {
				ts := make([]*Term, x.len)
				for i := 0; i < x.len; i++ {
					t, ok := x.arr.e[x.off+i].(*Term)
					if !ok {
						in.abort("[]byte element is %T", x.arr.e[x.off+i])
					}
					ts[i] = t
				}
				return strFromTerms(ts)
			}
			// []rune -> string
			out := Str{}
			for i := 0; i < x.len; i++ {
				out = strConcat(out, in.convert(x.arr.e[x.off+i], fs.Elem(), to).(Str))
			}
			return out
		}
		if _, ok := tu.(*types.Slice); ok {
			return x
		}
		if pt, ok := tu.(*types.Pointer); ok { // slice -> *array (go1.17) appears as SliceToArrayPointer normally
			_ = pt
		}
	case Ptr:
		return x // pointer <-> unsafe.Pointer
	case *Closure, *Map, *Chan, Iface, *Agg:
		return v
	case Complex:
		return x
	}
	in.abort("convert %T from %v to %v", v, from, to)
	return nil
}

var _ = math.Abs
