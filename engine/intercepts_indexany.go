package main

import (
	"strings"

	"golang.org/x/tools/go/ssa"
)

// strings.IndexAny(s, chars) (and through it ContainsAny). The real body ranges over s rune by rune, so every fully
// symbolic byte forks through the UTF-8 decoder (a 7-byte token string did not finish in 10 minutes). Model, exact
// when chars is concrete and all ASCII: the first byte position whose byte is one of chars (an ASCII byte never occurs
// inside a multi-byte sequence, and undecodable bytes only ever match U+FFFD, which is not ASCII). Fully concrete
// calls run natively. A symbolic s with non-ASCII chars is not modelled (path aborts).
func init() {
	reg("strings.IndexAny", func(in *Interp, fn *ssa.Function, args []Value) Value {
		s, ok1 := args[0].(Str)
		cs, ok2 := args[1].(Str)
		if !ok1 || !ok2 {
			in.abort("strings.IndexAny: strings expected, have %T, %T", args[0], args[1])
		}
		chars, conc := cs.Conc()
		if !conc {
			in.abort("strings.IndexAny with a symbolic character set")
		}
		if sc, ok := s.Conc(); ok {
			return CI(strings.IndexAny(sc, chars))
		}
		for i := 0; i < len(chars); i++ {
			if chars[i] >= 0x80 {
				in.abort("strings.IndexAny of a symbolic string with non-ASCII characters %q", chars)
			}
		}
		for i, b := range in.bytesOf(s) {
			hit := tFalse
			for j := 0; j < len(chars); j++ {
				hit = Or(hit, Eq(b, C(8, uint64(chars[j]))))
			}
			if in.decide(hit) {
				return CI(i)
			}
		}
		return CI(-1)
	})
}
