package main

import (
	"bufio"
	"fmt"
	"io"
	"os"
	"os/exec"
	"strconv"
	"strings"
	"sync/atomic"
	"time"
)

// Solver drives one incremental SMT solver process over a pipe.
type Solver struct {
	cmd      *exec.Cmd
	in       *bufio.Writer
	out      *bufio.Reader
	level    int
	defs     [][]*Term // terms defined per level
	defined  map[*Term]bool
	decls    [][]string
	declW    map[string]int
	Queries  int
	Sat      int
	Unsat    int
	Unknown  int
	Errors   int
	Dur      time.Duration
	log      io.Writer
	kind     string
	lastErr  string
	timeoutS int
	timeoutMs int // per-query timeout the process was started with
	record   bool
	lines    [][]string
	TotalDefs    int // define-fun commands sent over the life of this process
	waitingSince int64
	killed, closed int32
}

func NewSolver(kind string, timeoutMs int) *Solver {
	var cmd *exec.Cmd
	switch kind {
	case "z3":
		cmd = exec.Command("z3", "-in", "-smt2")
	case "z3-new":
		cmd = exec.Command("z3-new", "-in", "-smt2")
	case "cvc5":
		cmd = exec.Command("cvc5", "--incremental", "--lang=smt2", "--produce-models", fmt.Sprintf("--tlimit-per=%d", timeoutMs))
	default:
		panic("unknown solver " + kind)
	}
	stdin, err := cmd.StdinPipe()
	if err != nil {
		panic(err)
	}
	stdout, err := cmd.StdoutPipe()
	if err != nil {
		panic(err)
	}
	cmd.Stderr = os.Stderr
	if err := cmd.Start(); err != nil {
		panic(err)
	}
	s := &Solver{cmd: cmd, in: bufio.NewWriterSize(stdin, 1<<16), out: bufio.NewReaderSize(stdout, 1<<16),
		defined: map[*Term]bool{}, declW: map[string]int{}, kind: kind}
	s.defs = [][]*Term{nil}
	s.decls = [][]string{nil}
	if p := os.Getenv("GOSYM_SMTLOG"); p != "" {
		f, _ := os.Create(fmt.Sprintf("%s.%d", p, cmd.Process.Pid))
		s.log = f
	}
	s.timeoutMs = timeoutMs
	wd := 90 * time.Second
	if d := time.Duration(timeoutMs) * time.Millisecond * 3; d > wd {
		wd = d // a lemma that asks for a longer per-query timeout also gets a longer watchdog
	}
	go s.watchdog(wd)
	if kind == "cvc5" {
		s.send("(set-logic QF_BV)")
	} else {
		s.send(fmt.Sprintf("(set-option :timeout %d)", timeoutMs))
	}
	return s
}

func (s *Solver) Close() {
	atomic.StoreInt32(&s.closed, 1)
	if atomic.LoadInt32(&s.killed) != 0 {
		s.cmd.Wait()
		return
	}
	s.send("(exit)")
	s.in.Flush()
	s.cmd.Process.Kill()
	s.cmd.Wait()
}

// Transcript returns the commands that make up the current assertion stack (for cross-checking a query
// with another solver).
func (s *Solver) Transcript() []string {
	var out []string
	for _, l := range s.lines {
		out = append(out, l...)
	}
	return out
}

func (s *Solver) send(line string) {
	if s.record && !strings.HasPrefix(line, "(push") && !strings.HasPrefix(line, "(pop") && !strings.HasPrefix(line, "(check-sat") && !strings.HasPrefix(line, "(get-value") && !strings.HasPrefix(line, "(eval") && !strings.HasPrefix(line, "(set-option") {
		for len(s.lines) <= s.level {
			s.lines = append(s.lines, nil)
		}
		s.lines[s.level] = append(s.lines[s.level], line)
	}
	s.in.WriteString(line)
	s.in.WriteByte('\n')
	if s.log != nil {
		fmt.Fprintln(s.log, line)
	}
}

func (s *Solver) Push() {
	s.send("(push 1)")
	s.level++
	s.defs = append(s.defs, nil)
	s.decls = append(s.decls, nil)
}

func (s *Solver) Pop() {
	if s.level == 0 {
		panic("solver pop at level 0")
	}
	s.send("(pop 1)")
	for _, t := range s.defs[s.level] {
		delete(s.defined, t)
	}
	for _, n := range s.decls[s.level] {
		delete(s.declW, n)
	}
	s.defs = s.defs[:s.level]
	s.decls = s.decls[:s.level]
	if len(s.lines) > s.level {
		s.lines = s.lines[:s.level]
	}
	s.level--
}

// PopTo pops to the given level.
func (s *Solver) PopTo(l int) {
	for s.level > l {
		s.Pop()
	}
}

func (s *Solver) Declare(name string, w int) {
	if _, ok := s.declW[name]; ok {
		return
	}
	s.send(fmt.Sprintf("(declare-const %s %s)", name, sortOf(w)))
	s.declW[name] = w
	s.decls[s.level] = append(s.decls[s.level], name)
}

// define emits definitions for all non-leaf nodes of t (post-order) not yet defined.
func (s *Solver) define(t *Term) {
	if t.leaf() {
		if t.op == "var" {
			if _, ok := s.declW[t.name]; !ok {
				s.Declare(t.name, t.w)
			}
		}
		return
	}
	if s.defined[t] {
		return
	}
	// iterative post-order
	type fr struct {
		t *Term
		i int
	}
	stack := []fr{{t, 0}}
	for len(stack) > 0 {
		top := &stack[len(stack)-1]
		if top.i < len(top.t.args) {
			a := top.t.args[top.i]
			top.i++
			if a.leaf() {
				if a.op == "var" {
					if _, ok := s.declW[a.name]; !ok {
						s.Declare(a.name, a.w)
					}
				}
				continue
			}
			if !s.defined[a] {
				stack = append(stack, fr{a, 0})
			}
			continue
		}
		n := top.t
		stack = stack[:len(stack)-1]
		if s.defined[n] {
			continue
		}
		s.send(fmt.Sprintf("(define-fun t%d () %s %s)", n.id, sortOf(n.w), n.body()))
		s.TotalDefs++
		s.defined[n] = true
		s.defs[s.level] = append(s.defs[s.level], n)
	}
}

func (s *Solver) Assert(t *Term) {
	if t.w != 0 {
		panic("assert non-bool")
	}
	if t.isTrue() {
		return
	}
	s.define(t)
	s.send("(assert " + t.ref() + ")")
}

// solverDied is raised when the solver process ends or is killed by the watchdog.
type solverDied struct{ why string }

// watchdog kills the solver when a single response takes longer than limit (z3's own :timeout does not
// cover every phase, e.g. model evaluation or preprocessing).
func (s *Solver) watchdog(limit time.Duration) {
	for {
		time.Sleep(2 * time.Second)
		if atomic.LoadInt32(&s.closed) != 0 {
			return
		}
		since := atomic.LoadInt64(&s.waitingSince)
		if since != 0 && time.Since(time.Unix(0, since)) > limit {
			atomic.StoreInt32(&s.killed, 1)
			s.cmd.Process.Kill()
			return
		}
	}
}

func (s *Solver) readLine() string {
	for {
		atomic.StoreInt64(&s.waitingSince, time.Now().UnixNano())
		line, err := s.out.ReadString('\n')
		atomic.StoreInt64(&s.waitingSince, 0)
		if err != nil {
			if atomic.LoadInt32(&s.killed) != 0 {
				panic(solverDied{"solver watchdog: no response within the wall-clock limit"})
			}
			panic(solverDied{fmt.Sprintf("solver %s died: %v (last error %q)", s.kind, err, s.lastErr)})
		}
		line = strings.TrimSpace(line)
		if line == "" {
			continue
		}
		if s.log != nil {
			fmt.Fprintln(s.log, "; <- "+line)
		}
		return line
	}
}

// Check runs (check-sat); returns "sat", "unsat" or "unknown". Any solver error line yields "unknown".
func (s *Solver) Check() string {
	t0 := time.Now()
	s.send("(check-sat)")
	s.in.Flush()
	res := "unknown"
	for {
		line := s.readLine()
		if strings.HasPrefix(line, "(error") {
			s.Errors++
			s.lastErr = line
			fmt.Fprintln(os.Stderr, "SOLVER ERROR:", line)
			continue
		}
		if line == "sat" || line == "unsat" || line == "unknown" || line == "timeout" {
			if line != "timeout" {
				res = line
			}
			break
		}
		// unsupported / other output
		if strings.HasPrefix(line, "unsupported") {
			s.Errors++
			continue
		}
	}
	s.Queries++
	s.Dur += time.Since(t0)
	switch res {
	case "sat":
		s.Sat++
	case "unsat":
		s.Unsat++
	default:
		s.Unknown++
	}
	return res
}

// CheckWith checks satisfiability of the current assertions plus extra, in a temporary scope.
func (s *Solver) CheckWith(extra *Term) string {
	if extra.isC {
		if extra.c == 0 {
			return "unsat"
		}
	}
	s.Push()
	s.Assert(extra)
	r := s.Check()
	s.Pop()
	return r
}

// Values fetches model values of the named variables (after a sat Check in the same scope).
func (s *Solver) Values(names []string) map[string]uint64 {
	res := map[string]uint64{}
	for i := 0; i < len(names); i += 50 {
		j := i + 50
		if j > len(names) {
			j = len(names)
		}
		if s.kind != "cvc5" {
			// z3: (get-value ...) re-processes every define-fun ever sent (cost grows with the history of the
			// process, 0.5 s per call after ~10^4 definitions - measured, grpC notes); (eval c) does not.
			for _, n := range names[i:j] {
				s.send("(eval " + n + " :completion true)")
			}
			s.in.Flush()
			for _, n := range names[i:j] {
				line := s.readLine()
				if strings.HasPrefix(line, "(error") {
					s.Errors++
					s.lastErr = line
					continue
				}
				parseValues("(("+n+" "+line+"))", res)
			}
			continue
		}
		s.send("(get-value (" + strings.Join(names[i:j], " ") + "))")
		s.in.Flush()
		// response may span multiple lines; read until parens balance
		var sb strings.Builder
		depth := 0
		started := false
		for {
			line := s.readLine()
			if strings.HasPrefix(line, "(error") {
				s.Errors++
				s.lastErr = line
				return res
			}
			sb.WriteString(line)
			sb.WriteByte(' ')
			for _, ch := range line {
				if ch == '(' {
					depth++
					started = true
				} else if ch == ')' {
					depth--
				}
			}
			if started && depth == 0 {
				break
			}
		}
		parseValues(sb.String(), res)
	}
	return res
}

func parseValues(txt string, res map[string]uint64) {
	// ((n0 #x41) (n1 true) (n2 (_ bv5 64)))
	toks := tokenize(txt)
	i := 0
	for i < len(toks) {
		if toks[i] == "(" && i+2 < len(toks) && toks[i+1] != "(" {
			name := toks[i+1]
			v := toks[i+2]
			switch {
			case v == "true":
				res[name] = 1
			case v == "false":
				res[name] = 0
			case strings.HasPrefix(v, "#x"):
				u, _ := strconv.ParseUint(v[2:], 16, 64)
				res[name] = u
			case strings.HasPrefix(v, "#b"):
				u, _ := strconv.ParseUint(v[2:], 2, 64)
				res[name] = u
			case v == "(" && i+4 < len(toks) && toks[i+3] == "_":
				u, _ := strconv.ParseUint(strings.TrimPrefix(toks[i+4], "bv"), 10, 64)
				res[name] = u
			}
			i += 3
			continue
		}
		i++
	}
}

func tokenize(s string) []string {
	var toks []string
	cur := ""
	for _, ch := range s {
		switch ch {
		case '(', ')':
			if cur != "" {
				toks = append(toks, cur)
				cur = ""
			}
			toks = append(toks, string(ch))
		case ' ', '\n', '\t':
			if cur != "" {
				toks = append(toks, cur)
				cur = ""
			}
		default:
			cur += string(ch)
		}
	}
	if cur != "" {
		toks = append(toks, cur)
	}
	return toks
}

// DeclaredNames returns all currently declared variable names in declaration order.
func (s *Solver) DeclaredNames() []string {
	var r []string
	for _, l := range s.decls {
		r = append(r, l...)
	}
	return r
}
