package main

import "golang.org/x/tools/go/ssa"

// protoreflect.SourcePath.String() renders a location path as ".message_type[0].field[1]" through strconv and the
// descriptor tables; on symbolic path elements that forks once per feasible value of every element. The text only
// ever feeds error messages (protosourcepath.newInvalidSourcePathError), so a path with a symbolic element renders
// as an opaque string; fully concrete paths run the real body.
func init() {
	reg("(google.golang.org/protobuf/reflect/protoreflect.SourcePath).String", func(in *Interp, fn *ssa.Function, args []Value) Value {
		if sl, ok := args[0].(Slice); ok {
			conc := true
			for i := 0; i < sl.len; i++ {
				if t, ok := sl.arr.e[sl.off+i].(*Term); !ok || !t.isC {
					conc = false
					break
				}
			}
			if conc {
				in.bypass = fn
				return in.call(fn, args, nil)
			}
		}
		return in.opaque("%v:SourcePath")
	})
}
