package main

// github.com/jdx/go-netrc.Parse(path) reads and tokenises a file (os.Open, bufio, regexp). Like the os.* file
// functions (intercepts_osfs.go) it is delegated to the harness of the lemma's package:
//
//	netrc.Parse(path) -> verifNetrcParse(path string) (*netrc.Netrc, error)
//
// The harness decides the file contents (typically netrc.ParseString of a text it built), so file I/O - and only that -
// is abstracted. A package without verifNetrcParse aborts the
// path when it reaches netrc.Parse.
func init() {
	reg("github.com/jdx/go-netrc.Parse", delegateToHarness("verifNetrcParse"))
}
