package main

import (
	"math"
	"math/bits"

	"golang.org/x/tools/go/ssa"
)

// math/bits.Len* / LeadingZeros* of a symbolic word. The real code narrows the value with three comparisons and then
// indexes an 8-bit table, which forks once per feasible byte value (up to 256 ways). This model decides only the bit
// length by binary search over the thresholds 2^k (at most log2(w)+1 decisions, w+1 outcomes) and returns it as a
// concrete int. Concrete arguments are computed natively.
func init() {
	bitLen := func(in *Interp, v Value) (int, int) {
		x, ok := v.(*Term)
		if !ok {
			in.abort("math/bits: integer term expected, have %T", v)
		}
		w := x.w
		if x.isC {
			return bits.Len64(x.c & (^uint64(0) >> uint(64-w))), w
		}
		// invariant: lo <= Len(x) <= hi ; Len(x) <= k  <=>  x < 2^k (k < w)
		lo, hi := 0, w
		for lo < hi {
			mid := (lo + hi) / 2
			if in.decide(Bin("bvult", x, C(w, uint64(1)<<uint(mid)))) {
				hi = mid
			} else {
				lo = mid + 1
			}
		}
		return lo, w
	}
	lenFn := func(in *Interp, fn *ssa.Function, args []Value) Value {
		n, _ := bitLen(in, args[0])
		return CI(n)
	}
	lzFn := func(in *Interp, fn *ssa.Function, args []Value) Value {
		n, w := bitLen(in, args[0])
		return CI(w - n)
	}
	for _, s := range []string{"", "8", "16", "32", "64"} {
		reg("math/bits.Len"+s, lenFn)
		reg("math/bits.LeadingZeros"+s, lzFn)
	}
}

// math.Float64bits & co. on constant floats (the real bodies reinterpret memory through unsafe.Pointer). Symbolic
// floating point stays unsupported.
func init() {
	reg("math.Float64bits", func(in *Interp, fn *ssa.Function, args []Value) Value {
		f, ok := args[0].(Float)
		if !ok {
			in.abort("math.Float64bits of a non-constant float (%T)", args[0])
		}
		return C(64, math.Float64bits(f.f))
	})
	reg("math.Float32bits", func(in *Interp, fn *ssa.Function, args []Value) Value {
		f, ok := args[0].(Float)
		if !ok {
			in.abort("math.Float32bits of a non-constant float (%T)", args[0])
		}
		return C(32, uint64(math.Float32bits(float32(f.f))))
	})
	reg("math.Float64frombits", func(in *Interp, fn *ssa.Function, args []Value) Value {
		x, ok := args[0].(*Term)
		if !ok || !x.isC {
			in.abort("math.Float64frombits of a symbolic word")
		}
		return Float{math.Float64frombits(x.c)}
	})
	reg("math.Float32frombits", func(in *Interp, fn *ssa.Function, args []Value) Value {
		x, ok := args[0].(*Term)
		if !ok || !x.isC {
			in.abort("math.Float32frombits of a symbolic word")
		}
		return Float{float64(math.Float32frombits(uint32(x.c)))}
	})
}
