package main

import (
	"fmt"
	"math/bits"
	"strings"
	"sync/atomic"
)

// Term is an SMT term: Bool (w==0) or bit-vector of width w.
type Term struct {
	op   string
	w    int
	isC  bool
	c    uint64
	name string
	args []*Term
	hi   int // extract hi / extension amount
	lo   int
	id   int64
}

var termID int64

func newTerm(op string, w int, args ...*Term) *Term {
	return &Term{op: op, w: w, args: args, id: atomic.AddInt64(&termID, 1)}
}

func mask(w int) uint64 {
	if w >= 64 {
		return ^uint64(0)
	}
	return (uint64(1) << uint(w)) - 1
}

func sext(c uint64, w int) int64 {
	if w >= 64 || w == 0 {
		return int64(c)
	}
	if c&(1<<uint(w-1)) != 0 {
		return int64(c | ^mask(w))
	}
	return int64(c)
}

var (
	tTrue  = &Term{op: "const", w: 0, isC: true, c: 1}
	tFalse = &Term{op: "const", w: 0, isC: true, c: 0}
)

func B(b bool) *Term {
	if b {
		return tTrue
	}
	return tFalse
}

func C(w int, v uint64) *Term {
	if w == 0 {
		return B(v != 0)
	}
	return &Term{op: "const", w: w, isC: true, c: v & mask(w)}
}

func CI(v int) *Term { return C(64, uint64(v)) }

func V(name string, w int) *Term { return &Term{op: "var", w: w, name: name} }

func (t *Term) isTrue() bool  { return t.isC && t.w == 0 && t.c != 0 }
func (t *Term) isFalse() bool { return t.isC && t.w == 0 && t.c == 0 }

func Not(a *Term) *Term {
	if a.isC {
		return B(a.c == 0)
	}
	if a.op == "not" {
		return a.args[0]
	}
	return newTerm("not", 0, a)
}

func And(a, b *Term) *Term {
	if a.isC {
		if a.c == 0 {
			return tFalse
		}
		return b
	}
	if b.isC {
		if b.c == 0 {
			return tFalse
		}
		return a
	}
	if a == b {
		return a
	}
	return newTerm("and", 0, a, b)
}

func Or(a, b *Term) *Term {
	if a.isC {
		if a.c != 0 {
			return tTrue
		}
		return b
	}
	if b.isC {
		if b.c != 0 {
			return tTrue
		}
		return a
	}
	if a == b {
		return a
	}
	return newTerm("or", 0, a, b)
}

func Implies(a, b *Term) *Term { return Or(Not(a), b) }

func Eq(a, b *Term) *Term {
	if a.w != b.w {
		panic(fmt.Sprintf("Eq width mismatch %d %d (%s, %s)", a.w, b.w, a.op, b.op))
	}
	if a.isC && b.isC {
		return B(a.c == b.c)
	}
	if a == b {
		return tTrue
	}
	if a.op == "var" && b.op == "var" && a.name == b.name {
		return tTrue
	}
	if a.w == 0 {
		if a.isC {
			if a.c != 0 {
				return b
			}
			return Not(b)
		}
		if b.isC {
			if b.c != 0 {
				return a
			}
			return Not(a)
		}
	}
	// (ite c k1 k2) == k : fold when constants
	if a.op == "ite" && b.isC && a.args[1].isC && a.args[2].isC {
		return Ite(a.args[0], Eq(a.args[1], b), Eq(a.args[2], b))
	}
	if b.op == "ite" && a.isC && b.args[1].isC && b.args[2].isC {
		return Ite(b.args[0], Eq(b.args[1], a), Eq(b.args[2], a))
	}
	// zero_extend(x) == const
	if a.op == "zext" && b.isC {
		x := a.args[0]
		if b.c&^mask(x.w) != 0 {
			return tFalse
		}
		return Eq(x, C(x.w, b.c))
	}
	if b.op == "zext" && a.isC {
		return Eq(b, a)
	}
	return newTerm("=", 0, a, b)
}

func Ite(c, a, b *Term) *Term {
	if a.w != b.w {
		panic(fmt.Sprintf("Ite width mismatch %d %d", a.w, b.w))
	}
	if c.isC {
		if c.c != 0 {
			return a
		}
		return b
	}
	if a == b {
		return a
	}
	if a.isC && b.isC && a.c == b.c {
		return a
	}
	if a.w == 0 {
		if a.isC && b.isC {
			if a.c != 0 { // ite c true false
				return c
			}
			return Not(c)
		}
		if a.isC {
			if a.c != 0 {
				return Or(c, b)
			}
			return And(Not(c), b)
		}
		if b.isC {
			if b.c != 0 {
				return Or(Not(c), a)
			}
			return And(c, a)
		}
	}
	return newTerm("ite", a.w, c, a, b)
}

// Bin builds a binary bit-vector operation or comparison.
func Bin(op string, a, b *Term) *Term {
	if a.w != b.w {
		panic(fmt.Sprintf("Bin %s width mismatch %d %d", op, a.w, b.w))
	}
	w := a.w
	cmp := false
	switch op {
	case "bvult", "bvule", "bvslt", "bvsle":
		cmp = true
	}
	if a.isC && b.isC {
		x, y := a.c, b.c
		sx, sy := sext(x, w), sext(y, w)
		switch op {
		case "bvadd":
			return C(w, x+y)
		case "bvsub":
			return C(w, x-y)
		case "bvmul":
			return C(w, x*y)
		case "bvand":
			return C(w, x&y)
		case "bvor":
			return C(w, x|y)
		case "bvxor":
			return C(w, x^y)
		case "bvshl":
			if y >= uint64(w) {
				return C(w, 0)
			}
			return C(w, x<<y)
		case "bvlshr":
			if y >= uint64(w) {
				return C(w, 0)
			}
			return C(w, x>>y)
		case "bvashr":
			if y >= uint64(w) {
				if sx < 0 {
					return C(w, ^uint64(0))
				}
				return C(w, 0)
			}
			return C(w, uint64(sx>>y))
		case "bvudiv":
			if y == 0 {
				return C(w, ^uint64(0))
			}
			return C(w, x/y)
		case "bvurem":
			if y == 0 {
				return C(w, x)
			}
			return C(w, x%y)
		case "bvsdiv":
			if y == 0 {
				if sx < 0 {
					return C(w, 1)
				}
				return C(w, ^uint64(0))
			}
			if sy == -1 {
				return C(w, uint64(-sx))
			}
			return C(w, uint64(sx/sy))
		case "bvsrem":
			if y == 0 {
				return C(w, x)
			}
			if sy == -1 {
				return C(w, 0)
			}
			return C(w, uint64(sx%sy))
		case "bvult":
			return B(x < y)
		case "bvule":
			return B(x <= y)
		case "bvslt":
			return B(sx < sy)
		case "bvsle":
			return B(sx <= sy)
		}
		panic("Bin const: " + op)
	}
	// identities
	switch op {
	case "bvadd":
		if a.isC && a.c == 0 {
			return b
		}
		if b.isC && b.c == 0 {
			return a
		}
		// (x + k1) + k2
		if b.isC && a.op == "bvadd" && a.args[1].isC {
			return Bin("bvadd", a.args[0], C(w, a.args[1].c+b.c))
		}
	case "bvsub":
		if b.isC && b.c == 0 {
			return a
		}
		if a == b {
			return C(w, 0)
		}
		if b.isC {
			return Bin("bvadd", a, C(w, -b.c))
		}
	case "bvmul":
		if a.isC && a.c == 1 {
			return b
		}
		if b.isC && b.c == 1 {
			return a
		}
		if (a.isC && a.c == 0) || (b.isC && b.c == 0) {
			return C(w, 0)
		}
	case "bvand":
		if (a.isC && a.c == 0) || (b.isC && b.c == 0) {
			return C(w, 0)
		}
		if a.isC && a.c == mask(w) {
			return b
		}
		if b.isC && b.c == mask(w) {
			return a
		}
		if a == b {
			return a
		}
	case "bvor", "bvxor":
		if a.isC && a.c == 0 {
			return b
		}
		if b.isC && b.c == 0 {
			return a
		}
	case "bvshl", "bvlshr", "bvashr":
		if b.isC && b.c == 0 {
			return a
		}
	case "bvult":
		if a == b {
			return tFalse
		}
		if b.isC && b.c == 0 {
			return tFalse
		}
		if a.op == "zext" && b.isC && b.c > mask(a.args[0].w) {
			return tTrue
		}
	case "bvule":
		if a == b {
			return tTrue
		}
		if a.isC && a.c == 0 {
			return tTrue
		}
		if a.op == "zext" && b.isC && b.c >= mask(a.args[0].w) {
			return tTrue
		}
	case "bvslt":
		if a == b {
			return tFalse
		}
		// zext(x) <s k with k beyond range
		if a.op == "zext" && b.isC && sext(b.c, w) > int64(mask(a.args[0].w)) {
			return tTrue
		}
		if a.op == "zext" && b.isC && sext(b.c, w) <= 0 {
			return tFalse
		}
		if b.op == "zext" && a.isC && sext(a.c, w) < 0 {
			return tTrue
		}
		if b.op == "zext" && a.isC && sext(a.c, w) >= int64(mask(b.args[0].w)) {
			return tFalse
		}
	case "bvsle":
		if a == b {
			return tTrue
		}
		if a.op == "zext" && b.isC && sext(b.c, w) >= int64(mask(a.args[0].w)) {
			return tTrue
		}
		if a.op == "zext" && b.isC && sext(b.c, w) < 0 {
			return tFalse
		}
		if b.op == "zext" && a.isC && sext(a.c, w) <= 0 {
			return tTrue
		}
		if b.op == "zext" && a.isC && sext(a.c, w) > int64(mask(b.args[0].w)) {
			return tFalse
		}
	}
	rw := w
	if cmp {
		rw = 0
	}
	return newTerm(op, rw, a, b)
}

func BvNot(a *Term) *Term {
	if a.isC {
		return C(a.w, ^a.c)
	}
	return newTerm("bvnot", a.w, a)
}

func Neg(a *Term) *Term {
	if a.isC {
		return C(a.w, -a.c)
	}
	return newTerm("bvneg", a.w, a)
}

// Ext converts a bit-vector to width tw (truncate, zero- or sign-extend).
func Ext(a *Term, tw int, signed bool) *Term {
	if a.w == tw {
		return a
	}
	if a.w == 0 || tw == 0 {
		panic("Ext on bool")
	}
	if tw < a.w {
		if a.isC {
			return C(tw, a.c)
		}
		if (a.op == "zext" || a.op == "sext") && a.args[0].w >= tw {
			return Ext(a.args[0], tw, false)
		}
		t := newTerm("extract", tw, a)
		t.hi, t.lo = tw-1, 0
		return t
	}
	if a.isC {
		if signed {
			return C(tw, uint64(sext(a.c, a.w)))
		}
		return C(tw, a.c)
	}
	if signed {
		if a.op == "zext" { // sign bit is 0
			t := newTerm("zext", tw, a.args[0])
			t.hi = tw - a.args[0].w
			return t
		}
		t := newTerm("sext", tw, a)
		t.hi = tw - a.w
		return t
	}
	if a.op == "zext" {
		t := newTerm("zext", tw, a.args[0])
		t.hi = tw - a.args[0].w
		return t
	}
	t := newTerm("zext", tw, a)
	t.hi = tw - a.w
	return t
}

func (t *Term) leaf() bool { return t.isC || t.op == "var" }

func sortOf(w int) string {
	if w == 0 {
		return "Bool"
	}
	return fmt.Sprintf("(_ BitVec %d)", w)
}

func (t *Term) leafSMT() string {
	if t.isC {
		if t.w == 0 {
			if t.c != 0 {
				return "true"
			}
			return "false"
		}
		return fmt.Sprintf("(_ bv%d %d)", t.c, t.w)
	}
	return t.name
}

func (t *Term) ref() string {
	if t.leaf() {
		return t.leafSMT()
	}
	return fmt.Sprintf("t%d", t.id)
}

// body renders the node's definition referencing children by name.
func (t *Term) body() string {
	var sb strings.Builder
	switch t.op {
	case "extract":
		fmt.Fprintf(&sb, "((_ extract %d %d) %s)", t.hi, t.lo, t.args[0].ref())
		return sb.String()
	case "zext":
		fmt.Fprintf(&sb, "((_ zero_extend %d) %s)", t.hi, t.args[0].ref())
		return sb.String()
	case "sext":
		fmt.Fprintf(&sb, "((_ sign_extend %d) %s)", t.hi, t.args[0].ref())
		return sb.String()
	}
	sb.WriteString("(")
	sb.WriteString(t.op)
	for _, a := range t.args {
		sb.WriteString(" ")
		sb.WriteString(a.ref())
	}
	sb.WriteString(")")
	return sb.String()
}

// String renders a term as a tree, depth-limited (for evidence samples / debugging).
func (t *Term) String() string { return t.str(6) }

func (t *Term) str(d int) string {
	if t.leaf() {
		if t.isC && t.w > 0 {
			return fmt.Sprintf("%d", sext(t.c, t.w))
		}
		return t.leafSMT()
	}
	if d == 0 {
		return "…"
	}
	var sb strings.Builder
	sb.WriteString("(")
	sb.WriteString(t.op)
	for _, a := range t.args {
		sb.WriteString(" ")
		sb.WriteString(a.str(d - 1))
	}
	sb.WriteString(")")
	return sb.String()
}

// evalTerm evaluates t under a model (var name -> value).
func evalTerm(t *Term, m map[string]uint64, memo map[*Term]uint64) uint64 {
	if t.isC {
		return t.c
	}
	if t.op == "var" {
		return m[t.name] & maskB(t.w)
	}
	if v, ok := memo[t]; ok {
		return v
	}
	var r uint64
	a := func(i int) uint64 { return evalTerm(t.args[i], m, memo) }
	switch t.op {
	case "not":
		r = b2u(a(0) == 0)
	case "and":
		r = b2u(a(0) != 0 && a(1) != 0)
	case "or":
		r = b2u(a(0) != 0 || a(1) != 0)
	case "=":
		r = b2u(a(0) == a(1))
	case "ite":
		if a(0) != 0 {
			r = a(1)
		} else {
			r = a(2)
		}
	case "bvnot":
		r = ^a(0) & mask(t.w)
	case "bvneg":
		r = -a(0) & mask(t.w)
	case "extract":
		r = (a(0) >> uint(t.lo)) & mask(t.hi-t.lo+1)
	case "zext":
		r = a(0)
	case "sext":
		r = uint64(sext(a(0), t.args[0].w)) & mask(t.w)
	default:
		x, y := C(t.args[0].w, a(0)), C(t.args[1].w, a(1))
		r = Bin(t.op, x, y).c
	}
	memo[t] = r
	return r
}

func maskB(w int) uint64 {
	if w == 0 {
		return 1
	}
	return mask(w)
}

func b2u(b bool) uint64 {
	if b {
		return 1
	}
	return 0
}

var _ = bits.Len
