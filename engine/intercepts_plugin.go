package main

import (
	"golang.org/x/tools/go/ssa"
)

// Intercepts for the C17 lemmas (code generation requests / plugin responses).
func init() {
	// protopluginutil.StripSourceRetentionOptions(file) (*FileDescriptorProto, error) walks the options of every
	// descriptor with protobuf reflection (ProtoReflect().Range), which the engine cannot run. Model: identity
	// (the file has no source-retention options) - exactly what the real function returns for such a file.
	// Source-retention stripping is outside the C17 claim.
	reg("github.com/bufbuild/protoplugin/protopluginutil.StripSourceRetentionOptions", func(in *Interp, fn *ssa.Function, args []Value) Value {
		return Tuple{args[0], Iface{}}
	})
}
