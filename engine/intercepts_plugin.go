package main

import (
	"go/types"

	"golang.org/x/tools/go/ssa"
)

// Intercepts for the C17 lemmas (code generation requests / plugin responses).
func init() {
	// protopluginutil.StripSourceRetentionOptions(file) (*FileDescriptorProto, error) walks the options of every
	// descriptor with protobuf reflection (ProtoReflect().Range), which the engine cannot run. Model: identity
	// (the file has no source-retention options) - exactly what the real function returns for such a file.
	// Source-retention stripping is outside the C17 claim.
	reg("github.com/bufbuild/protoplugin/protopluginutil.StripSourceRetentionOptions", func(in *Interp, fn *ssa.Function, args []Value) Value {
		return Tuple{args[0], Iface{}}
	})

	// storagearchive.Zip(ctx, readBucket, writer, compressed) error encodes a bucket with archive/zip (crc32, flate,
	// binary headers) - not the subject of any lemma. It is delegated to verifArchiveZip of the lemma's package, which
	// records which bucket is handed to which writer (C17-C.out-isolation). A lemma whose package does not define
	// verifArchiveZip aborts the path here.
	reg("github.com/bufbuild/buf/private/pkg/storage/storagearchive.Zip", delegateToHarness("verifArchiveZip"))

	// (*bufimageutil.transitiveClosure).exploreCustomOptions(descriptor, referrerFile, imageIndex, opts) error ranges
	// over the set fields of the descriptor's options message with protobuf reflection. For a descriptor whose Options
	// pointer is nil the real function visits nothing and returns nil - that is the model (C17-D drives FilterImage with
	// its default options through bufgen.execPlugins on images without options). A descriptor that has options aborts
	// the path: custom options need reflection and are outside every claim.
	reg("(*github.com/bufbuild/buf/private/bufpkg/bufimage/bufimageutil.transitiveClosure).exploreCustomOptions", func(in *Interp, fn *ssa.Function, args []Value) Value {
		desc, ok := args[1].(Iface)
		if !ok || desc.t == nil {
			in.abort("exploreCustomOptions: descriptor is %T", args[1])
		}
		p, ok := desc.v.(Ptr)
		if !ok || p.IsNil() {
			in.abort("exploreCustomOptions: descriptor value is %T", desc.v)
		}
		pt, ok := desc.t.Underlying().(*types.Pointer)
		if !ok {
			in.abort("exploreCustomOptions: descriptor type %s", desc.t)
		}
		st, ok := pt.Elem().Underlying().(*types.Struct)
		if !ok {
			in.abort("exploreCustomOptions: descriptor type %s", desc.t)
		}
		a, ok := p.obj.e[p.idx].(*Agg)
		if !ok || a == nil {
			in.abort("exploreCustomOptions: descriptor target is %T", p.obj.e[p.idx])
		}
		for i := 0; i < st.NumFields(); i++ {
			if st.Field(i).Name() != "Options" {
				continue
			}
			if o, isPtr := a.e[i].(Ptr); isPtr && o.IsNil() {
				return Iface{} // no options: nothing to explore
			}
			// The descriptor has options: run the real body. With WithExcludeCustomOptions() it returns before
			// touching reflection (the C12 lemmas); otherwise the path ends at the reflective call as before.
			in.bypass = fn
			return in.call(fn, args, nil)
		}
		in.abort("exploreCustomOptions: descriptor type %s has no Options field", desc.t)
		return nil
	})
}
