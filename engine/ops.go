package main

import (
	"fmt"
	"go/types"
	"unicode/utf8"

	"golang.org/x/tools/go/ssa"
)

// ---------- maps ----------

func (in *Interp) journalMap(m *Map) {
	if m.pers && in.initDepth == 0 {
		ms := &mapSnap{ents: append([]*mapEnt{}, m.ents...), sym: append([]*mapEnt{}, m.sym...), n: m.n, idx: map[string]*mapEnt{}}
		for k, v := range m.idx {
			ms.idx[k] = v
		}
		for _, e := range m.ents {
			ms.vals = append(ms.vals, e.v)
			ms.dead = append(ms.dead, e.dead)
		}
		in.journal = append(in.journal, undoRec{m: m, ms: ms})
	}
}

// mapFind returns the entry whose key equals k (forking on symbolic keys), or nil.
func (in *Interp) mapFind(m *Map, k Value) *mapEnt {
	if m == nil {
		return nil
	}
	if ck, ok := concKey(k); ok {
		if e, ok := m.idx[ck]; ok && !e.dead {
			return e
		}
		for _, e := range m.sym {
			if e.dead {
				continue
			}
			if in.decide(in.valEq(e.k, k)) {
				return e
			}
		}
		return nil
	}
	// symbolic key: try the entry the cached model points at first, then rule out "no entry" in one query
	var live []*mapEnt
	var eqs []*Term
	for _, e := range m.ents {
		if !e.dead {
			live = append(live, e)
			eqs = append(eqs, in.valEq(e.k, k))
		}
	}
	if len(live) <= 2 {
		for i, e := range live {
			if in.decide(eqs[i]) {
				return e
			}
		}
		return nil
	}
	// model-guided search: each feasible outcome (entry i / no entry) costs O(1) queries
	excluded := make([]bool, len(live))
	for {
		cand := int(in.hint(func() int64 {
			if in.ensureModel() {
				for i, q := range eqs {
					if !excluded[i] && !q.isFalse() && in.evalModel(q) {
						return int64(i)
					}
				}
			}
			return -1
		}))
		if cand >= 0 && cand < len(eqs) && !excluded[cand] {
			if in.decide(eqs[cand]) {
				return live[cand]
			}
			excluded[cand] = true
			continue
		}
		any := tFalse
		for i, q := range eqs {
			if !excluded[i] {
				any = Or(any, q)
			}
		}
		if !in.decide(any) {
			return nil
		}
		if any.isC {
			// constant true cannot happen with all candidates excluded; guard against looping
			for i := range live {
				if !excluded[i] && in.decide(eqs[i]) {
					return live[i]
				}
			}
			return nil
		}
	}
}

func (in *Interp) mapLookup(m *Map, k Value) (Value, bool) {
	e := in.mapFind(m, k)
	if e == nil {
		return nil, false
	}
	return e.v, true
}

func (in *Interp) mapUpdate(mv Value, k, v Value) {
	m, _ := mv.(*Map)
	if m == nil {
		in.goPanicStr("assignment to entry in nil map")
	}
	if a, ok := v.(*Agg); ok && a != nil {
		v = cloneVal(a)
	}
	if a, ok := k.(*Agg); ok && a != nil {
		k = cloneVal(a)
	}
	e := in.mapFind(m, k)
	in.journalMap(m)
	if e != nil {
		e.v = v
		return
	}
	e = &mapEnt{k: k, v: v}
	m.ents = append(m.ents, e)
	m.n++
	if ck, ok := concKey(k); ok {
		m.idx[ck] = e
	} else {
		m.sym = append(m.sym, e)
	}
}

func (in *Interp) mapDelete(m *Map, k Value) {
	if m == nil {
		return
	}
	e := in.mapFind(m, k)
	if e == nil {
		return
	}
	in.journalMap(m)
	e.dead = true
	m.n--
	if ck, ok := concKey(k); ok {
		delete(m.idx, ck)
	}
	// compact occasionally
	if len(m.ents) > 16 && m.n < len(m.ents)/2 {
		var live []*mapEnt
		for _, x := range m.ents {
			if !x.dead {
				live = append(live, x)
			}
		}
		m.ents = live
		var sym []*mapEnt
		for _, x := range m.sym {
			if !x.dead {
				sym = append(sym, x)
			}
		}
		m.sym = sym
	}
}

func (in *Interp) mapClear(m *Map) {
	if m == nil {
		return
	}
	in.journalMap(m)
	for _, e := range m.ents {
		e.dead = true
	}
	m.ents, m.sym, m.n = nil, nil, 0
	m.idx = map[string]*mapEnt{}
}

// ---------- range ----------

func (in *Interp) rangeStart(v Value) Value {
	switch x := v.(type) {
	case Str:
		if x.opaque {
			in.abort("range over opaque string")
		}
		return &Iter{str: x}
	case *Map:
		it := &Iter{isMap: true}
		if x != nil {
			for _, e := range x.ents {
				if !e.dead {
					it.ents = append(it.ents, e)
				}
			}
			if in.lem != nil && in.lem.NondetMapOrder && len(it.ents) > 1 && len(it.ents) <= 4 && in.initDepth == 0 {
				// explore every iteration order (bounded)
				n := len(it.ents)
				perm := make([]*mapEnt, 0, n)
				rest := append([]*mapEnt{}, it.ents...)
				for len(rest) > 0 {
					k := in.choose(len(rest))
					perm = append(perm, rest[k])
					rest = append(rest[:k:k], rest[k+1:]...)
				}
				it.ents = perm
			}
			if in.lem != nil && in.lem.NondetMapInsert && in.initDepth == 0 {
				it.m = x
				it.known = map[*mapEnt]bool{}
				for _, e := range it.ents {
					it.known[e] = true
				}
			}
		}
		return it
	}
	in.abort("range over %T", v)
	return nil
}

func (in *Interp) rangeNext(x *ssa.Next, it *Iter) Value {
	if x.IsString {
		if it.pos >= it.str.Len() {
			return Tuple{tFalse, CI(0), C(32, 0)}
		}
		r, sz := in.decodeRune(it.str, it.pos)
		pos := it.pos
		it.pos += sz
		return Tuple{tTrue, CI(pos), r}
	}
	for it.pos < len(it.ents) {
		e := it.ents[it.pos]
		it.pos++
		if e.dead {
			continue
		}
		return Tuple{tTrue, cloneVal(e.k), cloneVal(e.v)}
	}
	if it.m != nil {
		// Go spec: "If a map entry is created during iteration, that entry may be produced during the iteration or
		// may be skipped." Both are explored (the produced entry comes after the ones present at the start).
		for _, e := range it.m.ents {
			if e.dead || it.known[e] {
				continue
			}
			it.known[e] = true
			if in.choose(2) == 1 {
				it.ents = append(it.ents, e)
				it.pos = len(it.ents)
				return Tuple{tTrue, cloneVal(e.k), cloneVal(e.v)}
			}
		}
	}
	tt := x.Type().(*types.Tuple)
	return Tuple{tFalse, in.zero(tt.At(1).Type()), in.zero(tt.At(2).Type())}
}

// decodeRune decodes one UTF-8 rune at s[pos:], forking on symbolic bytes.
func (in *Interp) decodeRune(s Str, pos int) (*Term, int) {
	b0 := s.At(pos)
	if b0.isC && b0.c < 0x80 {
		return C(32, b0.c), 1
	}
	if c, ok := s.Slice(pos, s.Len()).Conc(); ok {
		r, sz := utf8.DecodeRuneInString(c)
		return C(32, uint64(r)), sz
	}
	// symbolic: ASCII fast path by fork
	if in.decide(Bin("bvult", b0, C(8, 0x80))) {
		return Ext(b0, 32, false), 1
	}
	// general case: interpret the real utf8.DecodeRuneInString
	pkg := in.prog.ImportedPackage("unicode/utf8")
	if pkg == nil {
		in.abort("unicode/utf8 not loaded for symbolic rune decoding")
	}
	res := in.call(pkg.Func("DecodeRuneInString"), []Value{s.Slice(pos, s.Len())}, nil).(Tuple)
	sz := in.concInt(res[1])
	return res[0].(*Term), sz
}

// ---------- builtins ----------

func (in *Interp) builtin(fr *frame, b *ssa.Builtin, cc *ssa.CallCommon, args []Value) Value {
	switch b.Name() {
	case "len":
		switch a := args[0].(type) {
		case Str:
			if a.opaque {
				in.abort("len of opaque string (%s)", a.s)
			}
			return CI(a.Len())
		case Slice:
			return CI(a.len)
		case *Map:
			if a == nil {
				return CI(0)
			}
			return CI(a.n)
		case *Agg:
			return CI(len(a.e))
		case Ptr:
			return CI(len(a.obj.e[a.idx].(*Agg).e))
		case *Chan:
			if a == nil {
				return CI(0)
			}
			return CI(len(a.buf))
		}
	case "cap":
		switch a := args[0].(type) {
		case Slice:
			return CI(a.cap)
		case *Agg:
			return CI(len(a.e))
		case *Chan:
			if a == nil {
				return CI(0)
			}
			return CI(a.cap)
		}
	case "append":
		s := args[0].(Slice)
		var add []Value
		switch t := args[1].(type) {
		case Slice:
			for i := 0; i < t.len; i++ {
				add = append(add, cloneVal(t.arr.e[t.off+i]))
			}
		case Str:
			if t.opaque {
				in.abort("append of opaque string")
			}
			for i := 0; i < t.Len(); i++ {
				add = append(add, t.At(i))
			}
		}
		if len(add) == 0 {
			return s
		}
		if s.arr != nil && s.len+len(add) <= s.cap {
			for i, v := range add {
				in.setElem(s.arr, s.off+s.len+i, v)
			}
			return Slice{arr: s.arr, off: s.off, len: s.len + len(add), cap: s.cap}
		}
		nc := s.len + len(add)
		if nc < 2*s.cap {
			nc = 2 * s.cap
		}
		na := in.newAgg(nc)
		for i := 0; i < s.len; i++ {
			na.e[i] = cloneVal(s.arr.e[s.off+i])
		}
		copy(na.e[s.len:], add)
		// fill the rest with zero of elem type
		if nc > s.len+len(add) {
			et := cc.Args[0].Type().Underlying().(*types.Slice).Elem()
			z := in.zero(et)
			_, isAgg := z.(*Agg)
			for i := s.len + len(add); i < nc; i++ {
				if isAgg {
					na.e[i] = in.zero(et)
				} else {
					na.e[i] = z
				}
			}
		}
		return Slice{arr: na, len: s.len + len(add), cap: nc}
	case "copy":
		d := args[0].(Slice)
		n := 0
		switch t := args[1].(type) {
		case Slice:
			m := d.len
			if t.len < m {
				m = t.len
			}
			if d.arr == t.arr && d.off > t.off {
				for n = m - 1; n >= 0; n-- {
					in.setElem(d.arr, d.off+n, cloneVal(t.arr.e[t.off+n]))
				}
			} else {
				for n = 0; n < m; n++ {
					in.setElem(d.arr, d.off+n, cloneVal(t.arr.e[t.off+n]))
				}
			}
			n = m
		case Str:
			if t.opaque {
				in.abort("copy of opaque string")
			}
			for ; n < d.len && n < t.Len(); n++ {
				in.setElem(d.arr, d.off+n, t.At(n))
			}
		}
		return CI(n)
	case "delete":
		m, _ := args[0].(*Map)
		in.mapDelete(m, args[1])
		return nil
	case "clear":
		switch a := args[0].(type) {
		case *Map:
			in.mapClear(a)
		case Slice:
			et := cc.Args[0].Type().Underlying().(*types.Slice).Elem()
			for i := 0; i < a.len; i++ {
				in.setElem(a.arr, a.off+i, in.zero(et))
			}
		}
		return nil
	case "panic":
		panic(&goPanic{val: args[0], trace: in.where()})
	case "recover":
		if n := len(in.panics); n > 0 && !in.panics[n-1].recovered {
			in.panics[n-1].recovered = true
			return in.panics[n-1].val
		}
		return Iface{}
	case "print", "println":
		return nil
	case "close":
		in.chanClose(args[0])
		return nil
	case "min", "max":
		r := args[0]
		for _, a := range args[1:] {
			switch x := r.(type) {
			case *Term:
				y := a.(*Term)
				_, signed := width(cc.Args[0].Type())
				op := "bvult"
				if signed {
					op = "bvslt"
				}
				var c *Term
				if b.Name() == "min" {
					c = Bin(op, y, x)
				} else {
					c = Bin(op, x, y)
				}
				r = Ite(c, y, x)
			case Str:
				y := a.(Str)
				var c *Term
				if b.Name() == "min" {
					c = in.strLess(y, x)
				} else {
					c = in.strLess(x, y)
				}
				if in.decide(c) {
					r = y
				}
			case Float:
				y := a.(Float)
				if (b.Name() == "min" && y.f < x.f) || (b.Name() == "max" && y.f > x.f) {
					r = y
				}
			}
		}
		return r
	case "ssa:deferstack":
		return fr
	case "ssa:wrapnilchk":
		p, ok := args[0].(Ptr)
		if ok && p.obj == nil {
			in.goPanicStr("value method called using nil pointer")
		}
		return args[0]
	case "String": // unsafe.String(ptr, len)
		p := args[0].(Ptr)
		n := in.concInt(args[1])
		if n == 0 {
			return Str{}
		}
		ts := make([]*Term, n)
		for i := 0; i < n; i++ {
			ts[i] = p.obj.e[p.idx+i].(*Term)
		}
		return strFromTerms(ts)
	case "SliceData":
		s := args[0].(Slice)
		if s.arr == nil {
			return Ptr{}
		}
		return Ptr{obj: s.arr, idx: s.off}
	case "StringData":
		s := args[0].(Str)
		ag := in.newAgg(s.Len())
		for i := 0; i < s.Len(); i++ {
			ag.e[i] = s.At(i)
		}
		if s.Len() == 0 {
			ag = in.newAgg(1)
			ag.e[0] = C(8, 0)
		}
		return Ptr{obj: ag}
	case "Slice": // unsafe.Slice(ptr, len)
		p := args[0].(Ptr)
		n := in.concInt(args[1])
		if p.obj == nil {
			return Slice{}
		}
		return Slice{arr: p.obj, off: p.idx, len: n, cap: len(p.obj.e) - p.idx}
	}
	in.abort("builtin %s(%T)", b.Name(), firstArg(args))
	return nil
}

func firstArg(a []Value) Value {
	if len(a) == 0 {
		return nil
	}
	return a[0]
}

// ---------- helpers used by intercepts ----------

func (in *Interp) strArg(v Value) Str {
	s, ok := v.(Str)
	if !ok {
		in.abort("string expected, have %T", v)
	}
	return s
}

func (in *Interp) concStr(v Value) string {
	s := in.strArg(v)
	c, ok := s.Conc()
	if !ok {
		in.abort("concrete string required at %s, have %s", in.where(), s)
	}
	return c
}

func (in *Interp) bytesOf(v Value) []*Term {
	switch x := v.(type) {
	case Str:
		if x.opaque {
			in.abort("bytes of opaque string")
		}
		return x.terms()
	case Slice:
		r := make([]*Term, x.len)
		for i := range r {
			r[i] = x.arr.e[x.off+i].(*Term)
		}
		return r
	}
	in.abort("bytesOf %T", v)
	return nil
}

func (in *Interp) byteSlice(ts []*Term) Slice {
	ag := in.newAgg(len(ts))
	for i, t := range ts {
		ag.e[i] = t
	}
	return Slice{arr: ag, len: len(ts), cap: len(ts)}
}

func (in *Interp) strSlice(ss []string) Slice {
	ag := in.newAgg(len(ss))
	for i, s := range ss {
		ag.e[i] = strOf(s)
	}
	return Slice{arr: ag, len: len(ss), cap: len(ss)}
}

func (in *Interp) newVar(prefix string, w int) *Term {
	name := fmt.Sprintf("%s%d", prefix, in.nvars)
	in.nvars++
	in.sol.Declare(name, w)
	return V(name, w)
}
