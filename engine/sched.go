package main

import (
	"go/types"

	"golang.org/x/tools/go/ssa"
)

// Cooperative scheduler: simulated goroutines run on native goroutines, exactly one at a time.
// A goroutine runs until it blocks or finishes; then every runnable goroutine is a fork alternative.

type goroutine struct {
	id     int
	resume chan struct{}
	done   bool
	ready  func() bool // nil = runnable; else runnable iff ready()
	// saved interpreter state
	curFrame *frame
	depth    int
	panics   []*goPanic
}

type killG struct{}

type scheduler struct {
	gs     []*goroutine
	cur    *goroutine
	main   *goroutine
	fatal  any
	killed bool
	exited chan struct{}
	live   int
}

func (in *Interp) ensureSched() *scheduler {
	if in.sched == nil {
		m := &goroutine{id: 0, resume: make(chan struct{})}
		in.sched = &scheduler{gs: []*goroutine{m}, cur: m, main: m, exited: make(chan struct{}, 64)}
	}
	return in.sched
}

func (in *Interp) goStmt(fr *frame, x *ssa.Go) {
	cc := x.Common()
	args := make([]Value, len(cc.Args))
	for i, a := range cc.Args {
		args[i] = in.get(fr, a)
	}
	var callee Value
	if _, isB := cc.Value.(*ssa.Builtin); !isB {
		callee = in.get(fr, cc.Value)
	}
	s := in.ensureSched()
	g := &goroutine{id: len(s.gs), resume: make(chan struct{})}
	s.gs = append(s.gs, g)
	s.live++
	go func() {
		<-g.resume
		defer func() {
			r := recover()
			g.done = true
			s.live--
			if _, ok := r.(killG); ok || s.killed {
				s.exited <- struct{}{}
				return
			}
			if r != nil {
				if gp, ok := r.(*goPanic); ok {
					s.fatal = abortPath{"panic in goroutine: " + describe(gp.val, 3) + " at " + gp.trace}
				} else {
					s.fatal = r
				}
				// hand control to main, which re-raises
				in.restore(s.main)
				s.cur = s.main
				s.main.resume <- struct{}{}
				s.exited <- struct{}{}
				return
			}
			// finished normally: pick the next goroutine to run
			func() {
				defer func() {
					if r2 := recover(); r2 != nil {
						s.fatal = r2
						in.restore(s.main)
						s.cur = s.main
						s.main.resume <- struct{}{}
					}
				}()
				next := in.pickRunnable(nil)
				if next == nil {
					panic(abortPath{"deadlock: all goroutines blocked"})
				}
				in.restore(next)
				s.cur = next
				next.resume <- struct{}{}
			}()
			s.exited <- struct{}{}
		}()
		if s.killed {
			panic(killG{})
		}
		in.curFrame, in.depth, in.panics = nil, 0, nil
		in.applyCall(nil, cc, callee, args)
	}()
	if in.lem != nil && in.lem.YieldAtGo {
		in.yield()
	}
}

func (in *Interp) save(g *goroutine) {
	g.curFrame, g.depth, g.panics = in.curFrame, in.depth, in.panics
}

func (in *Interp) restore(g *goroutine) {
	in.curFrame, in.depth, in.panics = g.curFrame, g.depth, g.panics
}

// pickRunnable chooses (forking) among runnable goroutines other than 'except'.
func (in *Interp) pickRunnable(except *goroutine) *goroutine {
	s := in.sched
	var cands []*goroutine
	for _, g := range s.gs {
		if g.done || g == except {
			continue
		}
		if g.ready == nil || g.ready() {
			cands = append(cands, g)
		}
	}
	if len(cands) == 0 {
		return nil
	}
	return cands[in.choose(len(cands))]
}

// switchTo transfers control from the current goroutine to g and waits to be resumed.
func (in *Interp) switchTo(g *goroutine) {
	s := in.sched
	me := s.cur
	if g == me {
		return
	}
	in.save(me)
	in.restore(g)
	s.cur = g
	g.resume <- struct{}{}
	<-me.resume
	if s.killed {
		panic(killG{})
	}
	if me == s.main && s.fatal != nil {
		f := s.fatal
		s.fatal = nil
		panic(f)
	}
}

// block suspends the current goroutine until ready() holds.
func (in *Interp) block(ready func() bool) {
	if ready() {
		return
	}
	s := in.ensureSched()
	me := s.cur
	me.ready = ready
	for !ready() {
		next := in.pickRunnable(me)
		if next == nil {
			me.ready = nil
			in.abort("deadlock: all goroutines blocked at %s", in.where())
		}
		in.switchTo(next)
	}
	me.ready = nil
}

// yield offers the other runnable goroutines a turn (fork: stay or switch).
func (in *Interp) yield() {
	s := in.sched
	if s == nil {
		return
	}
	me := s.cur
	var cands []*goroutine
	for _, g := range s.gs {
		if g.done || g == me {
			continue
		}
		if g.ready == nil || g.ready() {
			cands = append(cands, g)
		}
	}
	if len(cands) == 0 {
		return
	}
	k := in.choose(len(cands) + 1)
	if k == 0 {
		return
	}
	in.switchTo(cands[k-1])
}

// killGoroutines terminates all simulated goroutines at the end of a path.
func (in *Interp) killGoroutines() {
	s := in.sched
	if s == nil {
		return
	}
	s.killed = true
	for _, g := range s.gs {
		if g == s.main || g.done {
			continue
		}
		select {
		case g.resume <- struct{}{}:
			<-s.exited
		default:
			// goroutine is not waiting on resume (should not happen); leave it
		}
	}
	in.sched = nil
}

// ---------- channels ----------

func (in *Interp) chanSend(cv Value, v Value) {
	c, _ := cv.(*Chan)
	if c == nil {
		in.block(func() bool { return false })
		return
	}
	if c.closed {
		in.goPanicStr("send on closed channel")
	}
	if c.cap > 0 {
		in.block(func() bool { return len(c.buf) < c.cap || c.closed })
		if c.closed {
			in.goPanicStr("send on closed channel")
		}
		c.buf = append(c.buf, v)
		return
	}
	// unbuffered: rendezvous
	c.buf = append(c.buf, v)
	c.sent++
	my := c.sent
	in.block(func() bool { return c.taken >= my })
}

func (in *Interp) chanRecv(cv Value) (Value, bool) {
	c, _ := cv.(*Chan)
	if c == nil {
		in.block(func() bool { return false })
		return nil, false
	}
	c.recvWaiting++
	in.block(func() bool { return len(c.buf) > 0 || c.closed })
	c.recvWaiting--
	if len(c.buf) > 0 {
		v := c.buf[0]
		c.buf = c.buf[1:]
		if c.taken < c.sent {
			c.taken++
		}
		return v, true
	}
	return c.zero, false
}

func (in *Interp) chanClose(cv Value) {
	c, _ := cv.(*Chan)
	if c == nil {
		in.goPanicStr("close of nil channel")
	}
	if c.closed {
		in.goPanicStr("close of closed channel")
	}
	c.closed = true
}

func (in *Interp) selectStmt(fr *frame, x *ssa.Select) Value {
	type st struct {
		c    *Chan
		send bool
		v    Value
	}
	states := make([]st, len(x.States))
	for i, s := range x.States {
		c, _ := in.get(fr, s.Chan).(*Chan)
		states[i] = st{c: c, send: s.Dir == 1}
		if s.Send != nil {
			states[i].v = in.get(fr, s.Send)
		}
	}
	readyIdx := func() []int {
		var r []int
		for i, s := range states {
			if s.c == nil {
				continue
			}
			if s.send {
				if s.c.closed || (s.c.cap > 0 && len(s.c.buf) < s.c.cap) || (s.c.cap == 0 && s.c.recvWaiting > 0 && len(s.c.buf) == 0) {
					r = append(r, i)
				}
			} else if len(s.c.buf) > 0 || s.c.closed {
				r = append(r, i)
			}
		}
		return r
	}
	rd := readyIdx()
	if len(rd) == 0 {
		if !x.Blocking {
			return in.selectResult(x, -1, nil, false)
		}
		in.block(func() bool { return len(readyIdx()) > 0 })
		rd = readyIdx()
	}
	k := rd[in.choose(len(rd))]
	s := states[k]
	if s.send {
		if s.c.closed {
			in.goPanicStr("send on closed channel")
		}
		s.c.buf = append(s.c.buf, s.v)
		if s.c.cap == 0 {
			s.c.sent++
			s.c.taken = s.c.sent // committed to the waiting receiver
		}
		return in.selectResult(x, k, nil, false)
	}
	if len(s.c.buf) > 0 {
		v := s.c.buf[0]
		s.c.buf = s.c.buf[1:]
		if s.c.taken < s.c.sent {
			s.c.taken++
		}
		return in.selectResult(x, k, v, true)
	}
	return in.selectResult(x, k, nil, false)
}

func (in *Interp) selectResult(x *ssa.Select, idx int, recv Value, ok bool) Value {
	res := Tuple{CI(idx), B(ok)}
	// one extra component per receive state
	for i, s := range x.States {
		if s.Dir == 2 { // RecvOnly
			if i == idx && recv != nil {
				res = append(res, recv)
			} else {
				res = append(res, in.zero(s.Chan.Type().Underlying().(*types.Chan).Elem()))
			}
		}
	}
	return res
}
