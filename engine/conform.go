package main

import (
	"encoding/json"
	"flag"
	"fmt"
	"math/rand"
	"os"
	"os/exec"
	"path/filepath"
	"reflect"
	"sort"
	"strings"

	"golang.org/x/tools/go/ssa"
)

// Translator validation (Serval-style): every harness is run on random *concrete* inputs twice — inside the
// interpreter and natively (go test -overlay) — and the observable outcomes must agree: which assertion
// failed (if any), the sequence of cover points, and how the run ended.

type concRun struct {
	rnd    *rand.Rand
	model  map[string]uint64
	failed []string
	covers []string
}

var interestingBytes = []byte("/.,@:_-aAzZ09 \n\\*\"'<>%#=\x00\x7f\x80\xff")

func (c *concRun) byteVal() uint64 {
	if c.rnd.Intn(3) > 0 {
		return uint64(interestingBytes[c.rnd.Intn(len(interestingBytes))])
	}
	return uint64(c.rnd.Intn(256))
}

func (in *Interp) concScalar(kind, prefix string, w int, lo, hi int64) *Term {
	name := fmt.Sprintf("%s%d", prefix, in.nvars)
	in.nvars++
	var v int64
	span := uint64(hi - lo)
	switch {
	case kind == "byte":
		v = int64(in.conc.byteVal())
	case span < 1<<40:
		// bias to the ends of the range
		switch in.conc.rnd.Intn(6) {
		case 0:
			v = lo
		case 1:
			v = hi
		default:
			v = lo + in.conc.rnd.Int63n(int64(span)+1)
		}
	default:
		v = lo + int64(in.conc.rnd.Uint64()%(span/2+1))
	}
	in.conc.model[name] = uint64(v)
	rw := w
	if kind == "byte" {
		rw = 9
	}
	in.nondets = append(in.nondets, NondetRec{Kind: kind, Names: []string{name}, W: rw})
	return C(w, uint64(v))
}

func (in *Interp) concBytes(n int) []*Term {
	base := in.nvars
	in.nvars++
	rec := NondetRec{Kind: "string"}
	ts := make([]*Term, n)
	for i := 0; i < n; i++ {
		name := fmt.Sprintf("s%d_%d", base, i)
		v := in.conc.byteVal()
		in.conc.model[name] = v
		rec.Names = append(rec.Names, name)
		ts[i] = C(8, v)
	}
	in.nondets = append(in.nondets, rec)
	return ts
}

type conformCase struct {
	I      int            `json:"i"`
	Lemma  string         `json:"lemma"`
	Entry  string         `json:"entry"`
	Params map[string]int `json:"params"`
	Values []string       `json:"values"`
	// interpreter outcome
	Status  string   `json:"status"`
	Failed  []string `json:"failed"`
	Covered []string `json:"covered"`
	Why     string   `json:"why,omitempty"`
}

func (w *worker) runConcrete(l *LemmaRun, entry *ssa.Function, seed int64) *conformCase {
	in := w.in
	in.lem = l
	in.prefix, in.taken, in.newAlts = nil, nil, nil
	in.twoSided, in.nvars, in.steps, in.pc, in.nondets = 0, 0, 0, nil, nil
	in.maxSteps = l.MaxSteps
	in.asserts, in.depth, in.curFrame, in.panics = 0, 0, nil, nil
	in.funcsSeen, in.intercepts = nil, nil
	in.uf, in.userState = nil, nil
	in.model, in.lits, in.fixed, in.free = nil, nil, nil, nil
	in.conc = &concRun{rnd: rand.New(rand.NewSource(seed)), model: map[string]uint64{}}
	defer func() { in.conc = nil }()
	in.sol.Push()
	cc := &conformCase{Lemma: l.Spec.ID, Entry: l.Spec.Entry, Params: l.Params, Status: "ok"}
	func() {
		defer func() {
			if r := recover(); r != nil {
				switch x := r.(type) {
				case abortPath:
					cc.Status, cc.Why = "aborted", x.why
				case stopPath:
					cc.Status, cc.Why = "stopped", x.why
				case *goPanic:
					cc.Status, cc.Why = "panicked", describe(x.val, 3)
				default:
					panic(r)
				}
			}
		}()
		in.call(entry, nil, nil)
	}()
	in.killGoroutines()
	cc.Values = replayValues(in.nondets, in.conc.model)
	cc.Failed, cc.Covered = in.conc.failed, in.conc.covers
	in.sol.PopTo(0)
	in.rollback()
	return cc
}

func cmdConform(args []string) int {
	fs := flag.NewFlagSet("conform", flag.ExitOnError)
	verifRoot := fs.String("verif", "/verif", "verif root")
	prop := fs.String("property", "", "property id (empty = all)")
	n := fs.Int("n", 25, "random inputs per lemma")
	seed := fs.Int64("seed", 1, "seed")
	tier := fs.String("tier", "quick", "tier for parameters")
	verbose := fs.Bool("v", false, "verbose")
	fs.Parse(args)
	all, err := loadLemmas(*verifRoot)
	if err != nil {
		fmt.Fprintln(os.Stderr, err)
		return 2
	}
	byDir := map[string][]*LemmaSpec{}
	for _, l := range all {
		if l.Disabled != "" || (*prop != "" && l.Property != *prop) {
			continue
		}
		if b, _ := l.Opts["noConformance"].(bool); b {
			continue
		}
		if b, _ := l.Opts["yieldAtGo"].(bool); b {
			continue
		}
		// map-order lemmas are nondeterministic natively (Go randomises map iteration)
		if b, _ := l.Opts["nondetMapOrder"].(bool); b {
			continue
		}
		if b, _ := l.Opts["nondetMapInsert"].(bool); b {
			continue
		}
		byDir[l.Dir] = append(byDir[l.Dir], l)
	}
	var dirs []string
	for d := range byDir {
		dirs = append(dirs, d)
	}
	sort.Strings(dirs)
	ld, err := loadPackages(*verifRoot, dirs)
	if err != nil {
		fmt.Fprintln(os.Stderr, "load:", err)
		return 2
	}
	w := newWorker(ld.prog)
	defer w.in.sol.Close()
	_, known := loadKnown(*verifRoot)
	mismatches, compared, skipped := 0, 0, 0
	for _, dir := range dirs {
		pkg := ld.pkgs[dir]
		if pkg == nil {
			fmt.Printf("conform: %s does not build: %s\n", dir, firstLine(ld.errs[dir]))
			continue
		}
		var cases []*conformCase
		for _, spec := range byDir[dir] {
			entry := pkg.Func(spec.Entry)
			if entry == nil {
				continue
			}
			l := newLemmaRun(spec, *tier, known)
			l.pkg = pkg
			l.Known = map[string]string{} // verifKnown is false natively; keep both sides equal
			for k := 0; k < *n; k++ {
				cc := w.runConcrete(l, entry, *seed*1000003+int64(k)*7919+int64(len(cases)))
				cc.I = len(cases)
				cases = append(cases, cc)
			}
		}
		native, out, err := nativeConform(*verifRoot, dir, cases)
		if err != nil {
			fmt.Printf("conform: native run for %s failed: %v\n%s\n", dir, err, out)
			mismatches++
			continue
		}
		for _, cc := range cases {
			nc, ok := native[cc.I]
			if cc.Status == "aborted" {
				skipped++
				if *verbose {
					fmt.Printf("  skip %s #%d: engine aborted: %s\n", cc.Lemma, cc.I, cc.Why)
				}
				continue
			}
			if !ok {
				fmt.Printf("MISMATCH %s #%d: no native result\n", cc.Lemma, cc.I)
				mismatches++
				continue
			}
			compared++
			same := nc.Status == cc.Status && reflect.DeepEqual(nilIfEmpty(nc.Failed), nilIfEmpty(cc.Failed)) && reflect.DeepEqual(nilIfEmpty(nc.Covered), nilIfEmpty(cc.Covered))
			if !same {
				mismatches++
				fmt.Printf("MISMATCH %s #%d values=%v\n   engine: status=%s failed=%v covered=%v (%s)\n   native: status=%s failed=%v covered=%v (%s)\n",
					cc.Lemma, cc.I, cc.Values, cc.Status, cc.Failed, cc.Covered, cc.Why, nc.Status, nc.Failed, nc.Covered, nc.Why)
			} else if *verbose {
				fmt.Printf("  agree %s #%d status=%s failed=%v covers=%d\n", cc.Lemma, cc.I, cc.Status, cc.Failed, len(cc.Covered))
			}
		}
	}
	fmt.Printf("conformance: %d cases compared (interpreter vs native), %d skipped (engine-aborted), %d mismatches\n", compared, skipped, mismatches)
	if mismatches > 0 {
		return 1
	}
	return 0
}

func nilIfEmpty(s []string) []string {
	if len(s) == 0 {
		return nil
	}
	return s
}

func nativeConform(verifRoot, dir string, cases []*conformCase) (map[int]*conformCase, string, error) {
	ov, err := buildOverlay(verifRoot, []string{dir}, true)
	if err != nil {
		return nil, "", err
	}
	tmp, err := os.MkdirTemp("", "gosym-conform-")
	if err != nil {
		return nil, "", err
	}
	defer os.RemoveAll(tmp)
	repl := map[string]string{}
	i := 0
	for virt, content := range ov {
		real := filepath.Join(tmp, fmt.Sprintf("f%d_%s", i, filepath.Base(virt)))
		i++
		os.WriteFile(real, content, 0o644)
		repl[virt] = real
	}
	ovJSON, _ := json.Marshal(map[string]any{"Replace": repl})
	ovPath := filepath.Join(tmp, "overlay.json")
	os.WriteFile(ovPath, ovJSON, 0o644)
	casesPath := filepath.Join(tmp, "cases.json")
	b, _ := json.Marshal(cases)
	os.WriteFile(casesPath, b, 0o644)
	cmd := exec.Command(goBin(), "test", "-tags", "verif", "-vet=off", "-count=1", "-overlay", ovPath, "-run", "^TestVerifConformance$", "-v", "./"+dir)
	cmd.Dir = repoRoot
	cmd.Env = append(goEnv(), "VERIF_CONFORM_FILE="+casesPath, "GOCACHE="+goCache())
	out, _ := cmd.CombinedOutput()
	res := map[int]*conformCase{}
	for _, line := range strings.Split(string(out), "\n") {
		if strings.HasPrefix(line, "VERIF-CONFORM ") {
			var cc conformCase
			if err := json.Unmarshal([]byte(strings.TrimPrefix(line, "VERIF-CONFORM ")), &cc); err == nil {
				c := cc
				res[cc.I] = &c
			}
		}
	}
	if len(res) == 0 {
		return nil, string(out), fmt.Errorf("no results")
	}
	return res, string(out), nil
}
