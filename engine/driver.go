package main

import (
	"encoding/json"
	"fmt"
	"os"
	"os/exec"
	"path/filepath"
	"regexp"
	"sort"
	"strings"
	"sync"
	"time"

	"golang.org/x/tools/go/packages"
	"golang.org/x/tools/go/ssa"
	"golang.org/x/tools/go/ssa/ssautil"
)

// repoRoot is the tree under verification: /repo, or a scratch worktree of it when GOSYM_REPO is set
// (used to try seeded changes without disturbing /repo).
var repoRoot = func() string {
	if r := os.Getenv("GOSYM_REPO"); r != "" {
		return r
	}
	return "/repo"
}()

// LemmaSpec is one entry of lemmas.json.
type LemmaSpec struct {
	ID       string         `json:"id"`
	Property string         `json:"property"`
	Dir      string         `json:"dir"`   // package directory relative to /repo
	Entry    string         `json:"entry"` // harness function
	Doc      string         `json:"doc"`
	Quick    *TierSpec      `json:"quick"`
	Thorough *TierSpec      `json:"thorough"`
	Opts     map[string]any `json:"opts"`
	Bounds   string         `json:"bounds"` // human description of the bounds
	Stubs    []string       `json:"stubs"`  // harness stubs / assumptions that are part of the claim
	Disabled string         `json:"disabled,omitempty"`
}

type TierSpec struct {
	Params       map[string]int `json:"params"`
	MaxPaths     int            `json:"maxPaths"`
	MaxSteps     int            `json:"maxSteps"`
	MaxDecisions int            `json:"maxDecisions"`
	MaxWallS     int            `json:"maxWallS"`
}

type Violation struct {
	Label     string     `json:"label"`
	Values    []string   `json:"values"`
	Decisions []Decision `json:"-"`
	Replayed  string     `json:"replayed"` // "", "reproduced", "not-reproduced", "error"
	File      string     `json:"file"`
}

// LemmaRun is the shared state of one lemma exploration.
type LemmaRun struct {
	Spec           *LemmaSpec
	Tier           string
	Params         map[string]int
	MaxPaths       int
	MaxSteps       int
	MaxDecisions   int
	MaxWallS       float64
	NondetMapOrder bool
	NondetMapInsert bool // opts.nondetMapInsert: an entry inserted into a map while it is being ranged over may or may not be visited (Go spec)
	YieldAtGo      bool
	SolverTimeoutMs int   // per-query timeout (opts.solverTimeoutMs, default 20000)
	SolverKind     string // primary solver of this lemma ("z3" default; opts.solver = "z3-new" selects the newer z3)
	Known          map[string]string // finding id -> status
	pkg            *ssa.Package

	mu          sync.Mutex
	cond        *sync.Cond
	stack       [][]Decision
	active      int
	stopped     bool
	Paths       int
	Nontrivial  int
	Stopped     int // paths ended by assume/infeasible
	Aborted     map[string]int
	Asserts     map[string]int
	AssertQ     int
	Covers      map[string]int
	Violations  map[string][]*Violation
	ViolCount   map[string]int
	KnownHits   map[string]int
	Unknowns    int
	Inconcl     map[string]int
	InitFail    map[string]string
	Funcs       map[string]bool
	Intercepts  map[string]int
	Samples     []map[string]any
	BudgetHit   bool
	SymMulDiv   int
	Opaque      int
	MaxDepthSeen int
	Wall        float64
	Queries, Sat, Unsat int
	SolverSec   float64
	BuildErr    string
	Cross       []crossQuery
	crossSeen   int
	CrossAgree  int
	CrossDisagree int
	CrossOther  map[string]int
}

// noteCrossQuery keeps a sample of final assertion queries for re-discharge with other solvers.
func (l *LemmaRun) noteCrossQuery(label, res string, script []string) {
	l.mu.Lock()
	defer l.mu.Unlock()
	l.crossSeen++
	const keep = 40
	cq := crossQuery{Label: label, Z3: res, Script: append(append([]string{}, script...), "(check-sat)")}
	if len(l.Cross) < keep {
		l.Cross = append(l.Cross, cq)
	} else if k := l.crossSeen % (keep * 7); k < keep && l.crossSeen%7 == 0 {
		l.Cross[k] = cq
	}
}

type crossQuery struct {
	Label  string
	Z3     string
	Script []string
	Other  map[string]string
}

func (l *LemmaRun) noteUnknown()                  { l.mu.Lock(); l.Unknowns++; l.mu.Unlock() }
func (l *LemmaRun) noteAssertQuery()              { l.mu.Lock(); l.AssertQ++; l.mu.Unlock() }
func (l *LemmaRun) noteAssert(label string)       { l.mu.Lock(); l.Asserts[label]++; l.mu.Unlock() }
func (l *LemmaRun) noteCover(label string)        { l.mu.Lock(); l.Covers[label]++; l.mu.Unlock() }
func (l *LemmaRun) noteKnownHit(id string)        { l.mu.Lock(); l.KnownHits[id]++; l.mu.Unlock() }
func (l *LemmaRun) noteInconclusive(why string)   { l.mu.Lock(); l.Inconcl[why]++; l.mu.Unlock() }
func (l *LemmaRun) noteInitFailure(p, why string) { l.mu.Lock(); l.InitFail[p] = why; l.mu.Unlock() }
func (l *LemmaRun) isKnown(id string) bool        { return l.Known[id] == "known" }
func (l *LemmaRun) noteViolation(label string, vals []string, dec []Decision) {
	l.mu.Lock()
	defer l.mu.Unlock()
	l.ViolCount[label]++
	if len(l.Violations[label]) < 2 {
		l.Violations[label] = append(l.Violations[label], &Violation{Label: label, Values: vals, Decisions: dec})
	}
}

func newLemmaRun(spec *LemmaSpec, tier string, known map[string]string) *LemmaRun {
	ts := spec.Quick
	if tier == "thorough" && spec.Thorough != nil {
		ts = spec.Thorough
	}
	if ts == nil {
		ts = &TierSpec{}
	}
	l := &LemmaRun{Spec: spec, Tier: tier, Params: ts.Params, MaxPaths: ts.MaxPaths, MaxSteps: ts.MaxSteps, MaxDecisions: ts.MaxDecisions,
		Known: known, Aborted: map[string]int{}, Asserts: map[string]int{}, Covers: map[string]int{}, Violations: map[string][]*Violation{},
		ViolCount: map[string]int{}, KnownHits: map[string]int{}, Inconcl: map[string]int{}, InitFail: map[string]string{},
		Funcs: map[string]bool{}, Intercepts: map[string]int{}}
	if l.Params == nil {
		l.Params = map[string]int{}
	}
	if l.MaxPaths == 0 {
		l.MaxPaths = 200000
	}
	if l.MaxSteps == 0 {
		l.MaxSteps = 3000000
	}
	if l.MaxDecisions == 0 {
		l.MaxDecisions = 4000
	}
	l.MaxWallS = float64(ts.MaxWallS)
	if l.MaxWallS == 0 {
		l.MaxWallS = 900
		if tier == "thorough" {
			l.MaxWallS = 3600
		}
	}
	if b, _ := spec.Opts["nondetMapOrder"].(bool); b {
		l.NondetMapOrder = true
	}
	if b, _ := spec.Opts["nondetMapInsert"].(bool); b {
		l.NondetMapInsert = true
	}
	if b, _ := spec.Opts["yieldAtGo"].(bool); b {
		l.YieldAtGo = true
	}
	l.SolverKind = "z3"
	l.SolverTimeoutMs = 20000
	if t, _ := spec.Opts["solverTimeoutMs"].(float64); t >= 1000 && t <= 600000 {
		l.SolverTimeoutMs = int(t)
	}
	if k, _ := spec.Opts["solver"].(string); k == "z3-new" {
		l.SolverKind = k
	}
	l.cond = sync.NewCond(&l.mu)
	return l
}

// solverRecycleDefs: a worker's solver process is replaced after this many define-fun commands.
const solverRecycleDefs = 150000

// worker owns one interpreter and one solver.
type worker struct {
	in *Interp
}

func newWorker(prog *ssa.Program) *worker {
	in := &Interp{prog: prog, globals: map[*ssa.Global]*Agg{}, inited: map[*ssa.Package]bool{}, fninfo: map[*ssa.Function]*fnInfo{}}
	in.sol = NewSolver("z3", 20000)
	return &worker{in: in}
}

// useSolver replaces the worker's solver process when the lemma asks for another primary solver.
func (w *worker) useSolver(kind string, timeoutMs int) {
	if w.in.sol.kind == kind && w.in.sol.timeoutMs == timeoutMs {
		return
	}
	rec := w.in.sol.record
	w.in.sol.Close()
	w.in.sol = NewSolver(kind, timeoutMs)
	w.in.sol.record = rec
}

func (w *worker) runPath(l *LemmaRun, entry *ssa.Function, prefix []Decision) {
	in := w.in
	in.lem = l
	in.prefix, in.taken, in.newAlts = prefix, nil, nil
	in.twoSided, in.nvars, in.steps, in.pc, in.nondets = 0, 0, 0, nil, nil
	in.maxSteps = l.MaxSteps
	in.asserts, in.depth, in.curFrame, in.panics = 0, 0, nil, nil
	in.funcsSeen = map[*ssa.Function]bool{}
	in.intercepts = map[string]int{}
	in.uf = nil
	in.userState = nil
	in.symMulDiv, in.opaqueN = 0, 0
	in.model, in.modelHits = nil, 0
	in.lits, in.litHits = nil, 0
	in.fixed, in.free = nil, nil
	errsAtStart := in.sol.Errors
	in.sol.Push()
	status := "ok"
	why := ""
	solverLost := false
	func() {
		defer func() {
			if r := recover(); r != nil {
				switch x := r.(type) {
				case abortPath:
					status, why = "aborted", x.why
				case stopPath:
					status, why = "stopped", x.why
				case *goPanic:
					status, why = "aborted", "uncaught Go panic: "+describe(x.val, 3)+" at "+x.trace
				case killG:
					status, why = "aborted", "killed"
				case solverDied:
					status, why = "aborted", x.why
					solverLost = true
				default:
					panic(r)
				}
			}
		}()
		in.call(entry, nil, nil)
	}()
	in.killGoroutines()
	if solverLost {
		// restart the solver; the path is inconclusive
		rec := in.sol.record
		kind, tmo := in.sol.kind, in.sol.timeoutMs
		in.sol.Close()
		in.sol = NewSolver(kind, tmo)
		in.sol.record = rec
		in.rollback()
		l.mu.Lock()
		l.Paths++
		l.Aborted[why]++
		l.stack = append(l.stack, in.newAlts...)
		l.mu.Unlock()
		return
	}
	var sample map[string]any
	if status == "ok" && in.twoSided > 0 {
		l.mu.Lock()
		want := len(l.Samples) < 4
		l.mu.Unlock()
		if want && in.sol.Check() == "sat" {
			m := in.sol.Values(in.nondetNames())
			var pcs []string
			for i, t := range in.pc {
				if i >= 6 {
					pcs = append(pcs, fmt.Sprintf("… (%d conjuncts)", len(in.pc)))
					break
				}
				pcs = append(pcs, t.String())
			}
			sample = map[string]any{"lemma": l.Spec.ID, "decisions": len(in.taken), "path_condition": pcs,
				"witness_inputs": replayValues(in.nondets, m), "assertions_checked": in.asserts}
		}
	}
	in.sol.PopTo(0)
	if in.sol.TotalDefs > solverRecycleDefs && !(in.sol.Errors > errsAtStart) {
		// z3 4.8.12 slows down with every definition it has ever seen (even popped ones): recycle the process.
		old := in.sol
		old.Close()
		in.sol = NewSolver(old.kind, old.timeoutMs)
		in.sol.record = old.record
		in.sol.Queries, in.sol.Sat, in.sol.Unsat, in.sol.Unknown = old.Queries, old.Sat, old.Unsat, old.Unknown
		in.sol.Errors, in.sol.Dur = old.Errors, old.Dur
	}
	if in.sol.Errors > errsAtStart || strings.Contains(in.sol.lastErr, "canceled") {
		// The solver printed an (error …) during this path - typically z3 4.8.12's "push canceled" right after a query
		// timeout: the (push 1) was dropped, so the solver's assertion stack no longer matches ours and every later
		// path of this worker would be judged against stale assertions ("replayed decision prefix is infeasible" in
		// all following lemmas). The path is inconclusive; continue with a fresh solver (counters carried over).
		old := in.sol
		old.Close()
		in.sol = NewSolver(old.kind, 20000)
		in.sol.record = old.record
		in.sol.Queries, in.sol.Sat, in.sol.Unsat, in.sol.Unknown = old.Queries, old.Sat, old.Unsat, old.Unknown
		in.sol.Errors, in.sol.Dur = old.Errors, old.Dur
		if status == "ok" {
			status, why = "aborted", "solver error during the path: "+old.lastErr
		}
	}
	in.rollback()
	l.mu.Lock()
	l.Paths++
	if in.twoSided > 0 {
		l.Nontrivial++
	}
	switch status {
	case "aborted":
		// normalise long reasons
		if len(why) > 300 {
			why = why[:300]
		}
		l.Aborted[why]++
	case "stopped":
		l.Stopped++
	}
	for f := range in.funcsSeen {
		l.Funcs[f.String()] = true
	}
	for k, v := range in.intercepts {
		l.Intercepts[k] += v
	}
	if sample != nil && len(l.Samples) < 4 {
		l.Samples = append(l.Samples, sample)
	}
	l.SymMulDiv += in.symMulDiv
	l.Opaque += in.opaqueN
	if len(in.taken) > l.MaxDepthSeen {
		l.MaxDepthSeen = len(in.taken)
	}
	l.stack = append(l.stack, in.newAlts...)
	l.mu.Unlock()
}

// explore runs the lemma to completion on the given workers.
func (l *LemmaRun) explore(ws []*worker, entry *ssa.Function) {
	t0 := time.Now()
	l.stack = [][]Decision{{}}
	var wg sync.WaitGroup
	q0, s0, u0 := 0, 0, 0
	var d0 time.Duration
	for _, w := range ws {
		q0 += w.in.sol.Queries
		s0 += w.in.sol.Sat
		u0 += w.in.sol.Unsat
		d0 += w.in.sol.Dur
	}
	for _, w := range ws {
		wg.Add(1)
		go func(w *worker) {
			defer wg.Done()
			for {
				l.mu.Lock()
				for len(l.stack) == 0 && l.active > 0 && !l.stopped {
					l.cond.Wait()
				}
				if l.stopped || (len(l.stack) == 0 && l.active == 0) {
					l.mu.Unlock()
					l.cond.Broadcast()
					return
				}
				if l.Paths+l.active >= l.MaxPaths || time.Since(t0).Seconds() > l.MaxWallS {
					if time.Since(t0).Seconds() > l.MaxWallS {
						l.Inconcl[fmt.Sprintf("wall-clock budget (%.0fs) exhausted with %d prefixes pending", l.MaxWallS, len(l.stack))]++
					}
					l.BudgetHit = true
					l.stopped = true
					l.mu.Unlock()
					l.cond.Broadcast()
					return
				}
				p := l.stack[len(l.stack)-1]
				l.stack = l.stack[:len(l.stack)-1]
				l.active++
				l.mu.Unlock()
				func() {
					defer func() {
						l.mu.Lock()
						l.active--
						l.mu.Unlock()
						l.cond.Broadcast()
					}()
					w.runPath(l, entry, p)
				}()
			}
		}(w)
	}
	wg.Wait()
	for _, w := range ws {
		l.Queries += w.in.sol.Queries
		l.Sat += w.in.sol.Sat
		l.Unsat += w.in.sol.Unsat
		l.SolverSec += w.in.sol.Dur.Seconds()
	}
	l.Queries -= q0
	l.Sat -= s0
	l.Unsat -= u0
	l.SolverSec -= d0.Seconds()
	l.Wall = time.Since(t0).Seconds()
}

// ---------- loading ----------

var pkgClause = regexp.MustCompile(`(?m)^package\s+(\w+)`)

type loaded struct {
	prog *ssa.Program
	pkgs map[string]*ssa.Package // dir -> package
	errs map[string]string       // dir -> build error
	overlay map[string][]byte
}

func harnessFiles(verifRoot, dir string) []string {
	fs, _ := filepath.Glob(filepath.Join(verifRoot, "harness", dir, "*.go"))
	sort.Strings(fs)
	return fs
}

func buildOverlay(verifRoot string, dirs []string, native bool) (map[string][]byte, error) {
	ov := map[string][]byte{}
	rtTmpl, err := os.ReadFile(filepath.Join(verifRoot, "engine", "rt", "zz_verif_rt.go.tmpl"))
	if err != nil {
		return nil, err
	}
	for _, dir := range dirs {
		files := harnessFiles(verifRoot, dir)
		if len(files) == 0 {
			return nil, fmt.Errorf("no harness files for %s", dir)
		}
		pkgName := ""
		var entries []string
		for _, f := range files {
			b, err := os.ReadFile(f)
			if err != nil {
				return nil, err
			}
			if m := pkgClause.FindSubmatch(b); m != nil {
				pkgName = string(m[1])
			}
			for _, m := range regexp.MustCompile(`(?m)^func (VerifLemma_\w+)\(\)`).FindAllSubmatch(b, -1) {
				entries = append(entries, string(m[1]))
			}
			ov[filepath.Join(repoRoot, dir, "zz_verif_"+filepath.Base(f))] = b
		}
		rt := strings.ReplaceAll(string(rtTmpl), "PKGNAME", pkgName)
		var reg strings.Builder
		for _, e := range entries {
			fmt.Fprintf(&reg, "\t%q: %s,\n", e, e)
		}
		rt = strings.ReplaceAll(rt, "//ENTRIES", reg.String())
		ov[filepath.Join(repoRoot, dir, "zz_verif_rt.go")] = []byte(rt)
		if native {
			tt, err := os.ReadFile(filepath.Join(verifRoot, "engine", "rt", "zz_verif_replay_test.go.tmpl"))
			if err != nil {
				return nil, err
			}
			ov[filepath.Join(repoRoot, dir, "zz_verif_replay_test.go")] = []byte(strings.ReplaceAll(string(tt), "PKGNAME", pkgName))
		}
	}
	return ov, nil
}

var (
	goEnvOnce sync.Once
	goEnvVal  []string
)

// goEnv returns the environment for go list / go test: the toolchain /repo itself selects (go.mod
// 'toolchain' line, resolved offline from the module cache), pinned with GOTOOLCHAIN=local.
func goEnv() []string {
	goEnvOnce.Do(func() {
		env := os.Environ()
		cmd := exec.Command("go", "env", "GOROOT")
		cmd.Dir = repoRoot
		cmd.Env = append(os.Environ(), "GOTOOLCHAIN=auto", "GOFLAGS=-mod=mod")
		if out, err := cmd.Output(); err == nil {
			root := strings.TrimSpace(string(out))
			if root != "" {
				env = append(env, "PATH="+filepath.Join(root, "bin")+":"+os.Getenv("PATH"), "GOROOT="+root)
			}
		}
		goEnvVal = append(env, "GOPROXY=off", "GOTOOLCHAIN=local", "GOFLAGS=-mod=mod")
	})
	return goEnvVal
}

func goBin() string {
	for _, e := range goEnv() {
		if strings.HasPrefix(e, "GOROOT=") {
			return filepath.Join(strings.TrimPrefix(e, "GOROOT="), "bin", "go")
		}
	}
	return "go"
}

func loadPackages(verifRoot string, dirs []string) (*loaded, error) {
	ov, err := buildOverlay(verifRoot, dirs, false)
	if err != nil {
		return nil, err
	}
	cfg := &packages.Config{
		Mode: packages.LoadAllSyntax, Dir: repoRoot, Env: goEnv(), Overlay: ov,
		BuildFlags: []string{"-tags=verif"},
	}
	var pats []string
	for _, d := range dirs {
		pats = append(pats, "./"+d)
	}
	pkgs, err := packages.Load(cfg, pats...)
	if err != nil {
		return nil, err
	}
	ld := &loaded{pkgs: map[string]*ssa.Package{}, errs: map[string]string{}, overlay: ov}
	prog, spkgs := ssautil.AllPackages(pkgs, ssa.InstantiateGenerics|ssa.BareInits)
	ld.prog = prog
	for i, p := range pkgs {
		dir := ""
		for _, d := range dirs {
			if p.PkgPath == "github.com/bufbuild/buf/"+d {
				dir = d
			}
		}
		if len(p.Errors) > 0 {
			var es []string
			for _, e := range p.Errors {
				es = append(es, e.Error())
			}
			ld.errs[dir] = strings.Join(es, "; ")
			continue
		}
		// errors in dependencies (IllTyped)
		if p.IllTyped || spkgs[i] == nil {
			ld.errs[dir] = "package or a dependency is ill-typed"
			continue
		}
		spkgs[i].Build()
		ld.pkgs[dir] = spkgs[i]
	}
	return ld, nil
}

// ---------- known findings ----------

type KnownFinding struct {
	Property string `json:"property"`
	ID       string `json:"id"`
	Lemma    string `json:"lemma"`
	What     string `json:"what"`
	Status   string `json:"status"` // known | fixed
	Commit   string `json:"commit,omitempty"`
}

func loadKnown(verifRoot string) ([]KnownFinding, map[string]string) {
	var kf []KnownFinding
	b, err := os.ReadFile(filepath.Join(verifRoot, "known_findings.json"))
	if err == nil {
		json.Unmarshal(b, &kf)
	}
	m := map[string]string{}
	for _, k := range kf {
		m[k.ID] = k.Status
	}
	return kf, m
}

func loadLemmas(verifRoot string) ([]*LemmaSpec, error) {
	var all []*LemmaSpec
	files, _ := filepath.Glob(filepath.Join(verifRoot, "lemmas", "*.json"))
	sort.Strings(files)
	for _, f := range files {
		b, err := os.ReadFile(f)
		if err != nil {
			return nil, err
		}
		var ls []*LemmaSpec
		if err := json.Unmarshal(b, &ls); err != nil {
			return nil, fmt.Errorf("%s: %v", f, err)
		}
		all = append(all, ls...)
	}
	return all, nil
}
