package main

import (
	"strconv"

	"golang.org/x/tools/go/ssa"
)

// strings.Join as plain concatenation e0+sep+e1+... (exact for every input). The real body pre-computes the
// total length, which aborts when an element is an opaque rendering (fmt of a symbolic integer); concatenation
// keeps the result opaque instead, so message-building code whose text is never inspected stays executable.
func init() {
	reg("strings.Join", func(in *Interp, fn *ssa.Function, args []Value) Value {
		sl, ok := args[0].(Slice)
		if !ok {
			in.abort("strings.Join: slice expected, have %T", args[0])
		}
		sep, ok := args[1].(Str)
		if !ok {
			in.abort("strings.Join: string separator expected, have %T", args[1])
		}
		out := strOf("")
		for i := 0; i < sl.len; i++ {
			e, ok := sl.arr.e[sl.off+i].(Str)
			if !ok {
				in.abort("strings.Join: string element expected, have %T", sl.arr.e[sl.off+i])
			}
			if i > 0 {
				out = strConcat(out, sep)
			}
			out = strConcat(out, e)
		}
		return out
	})
}

// strconv.FormatInt(x, 10) of a symbolic integer: an opaque rendering (the real code indexes digit tables with
// the value and forks once per value). Concrete arguments and other bases run the real code.
func init() {
	reg("strconv.FormatInt", func(in *Interp, fn *ssa.Function, args []Value) Value {
		x, ok := args[0].(*Term)
		base, ok2 := args[1].(*Term)
		if !ok || !ok2 || !base.isC {
			in.abort("strconv.FormatInt: integer terms expected")
		}
		if x.isC {
			return strOf(strconv.FormatInt(sext(x.c, x.w), int(base.c)))
		}
		if base.c != 10 {
			in.abort("strconv.FormatInt of a symbolic integer in base %d", base.c)
		}
		return in.opaque("%d")
	})
}

// protobuf-go enum String() methods used by the breaking handlers. The generated bodies look the value name up
// through the enum descriptor (x.Descriptor() forces the reflection-built descriptorpb package initialiser, which
// the engine cannot run). Model: the name table of descriptor.proto for concrete values (undefined numbers print
// as decimal, as protobuf-go does); a symbolic value gives an opaque string.
func init() {
	tables := map[string]map[int64]string{
		"FieldOptions_JSType":            {0: "JS_NORMAL", 1: "JS_STRING", 2: "JS_NUMBER"},
		"FileOptions_OptimizeMode":       {1: "SPEED", 2: "CODE_SIZE", 3: "LITE_RUNTIME"},
		"MethodOptions_IdempotencyLevel": {0: "IDEMPOTENCY_UNKNOWN", 1: "NO_SIDE_EFFECTS", 2: "IDEMPOTENT"},
	}
	for t, names := range tables {
		names := names
		reg("(google.golang.org/protobuf/types/descriptorpb."+t+").String", func(in *Interp, fn *ssa.Function, args []Value) Value {
			x, ok := args[0].(*Term)
			if !ok || !x.isC {
				return in.opaque("%enum")
			}
			v := sext(x.c, x.w)
			if n, ok := names[v]; ok {
				return strOf(n)
			}
			return strOf(strconv.FormatInt(v, 10))
		})
	}
	reg("(google.golang.org/protobuf/internal/impl.Export).EnumStringOf", func(in *Interp, fn *ssa.Function, args []Value) Value {
		return in.opaque("%enum")
	})
}
