package main

import (
	"fmt"
	"go/types"
	"strconv"
	"strings"

	"golang.org/x/tools/go/ssa"
)

// Model of package fmt: native formatting for the common verbs on strings / errors / concrete ints.
// A rendering that depends on symbolic data in a way that changes its length yields an opaque string.

func (in *Interp) opaque(tag string) Str {
	in.opaqueN++
	return Str{opaque: true, s: tag}
}

func (in *Interp) anySlice(v Value) []Value {
	s, ok := v.(Slice)
	if !ok {
		return nil
	}
	out := make([]Value, s.len)
	for i := range out {
		out[i] = s.arr.e[s.off+i]
	}
	return out
}

// goValueOf converts a concrete basic interpreter value to a native Go value for fmt; ok=false otherwise.
func (in *Interp) goValueOf(t types.Type, v Value) (any, bool) {
	switch x := v.(type) {
	case *Term:
		if !x.isC {
			return nil, false
		}
		w, signed := width(t)
		switch {
		case w == 0:
			return x.c != 0, true
		case signed:
			switch w {
			case 8:
				return int8(sext(x.c, 8)), true
			case 16:
				return int16(sext(x.c, 16)), true
			case 32:
				return int32(sext(x.c, 32)), true
			}
			return int(sext(x.c, 64)), true
		default:
			switch w {
			case 8:
				return uint8(x.c), true
			case 16:
				return uint16(x.c), true
			case 32:
				return uint32(x.c), true
			}
			return x.c, true
		}
	case Str:
		if s, ok := x.Conc(); ok {
			return s, true
		}
	case Float:
		return x.f, true
	}
	return nil, false
}

// renderArg renders one operand for verb (with optional flags); returns a Str (possibly opaque).
func (in *Interp) renderArg(spec string, verb byte, arg Value) Str {
	ifc, isI := arg.(Iface)
	if !isI {
		return in.opaque("%" + string(verb))
	}
	if ifc.t == nil {
		switch verb {
		case 'v':
			return strOf("<nil>")
		case 'T':
			return strOf("<nil>")
		}
		return strOf("%!" + string(verb) + "(<nil>)")
	}
	if verb == 'T' {
		// reflect prints named types qualified by the package *name* (not the import path)
		return strOf(types.TypeString(ifc.t, func(p *types.Package) string { return p.Name() }))
	}
	// error / Stringer for the string-ish verbs
	if verb == 'v' || verb == 's' || verb == 'q' {
		if p, ok := ifc.v.(Ptr); ok && p.obj == nil {
			if _, isPtr := ifc.t.Underlying().(*types.Pointer); isPtr && (in.hasMethod(ifc.t, "Error") || in.hasMethod(ifc.t, "String")) {
				return strOf("<nil>")
			}
		}
		var s Str
		got := false
		if in.hasMethod(ifc.t, "Error") && in.methodSigIs(ifc.t, "Error") {
			s = in.callMethodByName(ifc, "Error").(Str)
			got = true
		} else if in.hasMethod(ifc.t, "String") && in.methodSigIs(ifc.t, "String") {
			s = in.callMethodByName(ifc, "String").(Str)
			got = true
		} else if x, ok := ifc.v.(Str); ok {
			s = x
			got = true
		}
		if got {
			if verb == 'q' {
				if c, ok := s.Conc(); ok {
					return strOf(strconv.Quote(c))
				}
				// quoting depends on the bytes
				if !s.opaque && in.allPrintableASCII(s) {
					return strConcat(strConcat(strOf("\""), s), strOf("\""))
				}
				return in.opaque("%q")
			}
			if spec != "" && spec != "+" && spec != "#" {
				if c, ok := s.Conc(); ok {
					return strOf(fmt.Sprintf("%"+spec+string(verb), c))
				}
				return in.opaque("%" + spec + string(verb))
			}
			return s
		}
	}
	if gv, ok := in.goValueOf(ifc.t, ifc.v); ok {
		// named string/int types without methods print like their underlying values
		return strOf(fmt.Sprintf("%"+spec+string(verb), gv))
	}
	switch x := ifc.v.(type) {
	case *Term:
		if verb == 'd' || verb == 'v' {
			// symbolic integer: rendered through the real strconv code when cheap, else opaque
			return in.opaque("%d")
		}
	case Slice:
		if verb == 'v' || verb == 's' || verb == 'q' {
			// slices of strings / errors / Stringers
			st, _ := ifc.t.Underlying().(*types.Slice)
			if st != nil {
				out := strOf("[")
				for i := 0; i < x.len; i++ {
					if i > 0 {
						out = strConcat(out, strOf(" "))
					}
					ev := x.arr.e[x.off+i]
					var ei Value
					if eif, ok := ev.(Iface); ok {
						ei = eif
					} else {
						ei = Iface{t: st.Elem(), v: ev}
					}
					out = strConcat(out, in.renderArg(spec, verb, ei))
				}
				return strConcat(out, strOf("]"))
			}
		}
	case Ptr:
		if x.obj == nil {
			return strOf("<nil>")
		}
	}
	return in.opaque("%" + string(verb) + ":" + ifc.t.String())
}

func (in *Interp) methodSigIs(t types.Type, name string) bool {
	ms := in.prog.MethodSets.MethodSet(t)
	for i := 0; i < ms.Len(); i++ {
		f := ms.At(i).Obj().(*types.Func)
		if f.Name() == name {
			sig := f.Type().(*types.Signature)
			return sig.Params().Len() == 0 && sig.Results().Len() == 1 && isString(sig.Results().At(0).Type())
		}
	}
	return false
}

func (in *Interp) allPrintableASCII(s Str) bool {
	// decided with the solver: every byte in [0x20,0x7e] minus '"' and '\\' under the current path
	cond := tTrue
	for i := 0; i < s.Len(); i++ {
		b := s.At(i)
		ok := And(Bin("bvule", C(8, 0x20), b), Bin("bvule", b, C(8, 0x7e)))
		ok = And(ok, And(Not(Eq(b, C(8, '"'))), Not(Eq(b, C(8, '\\')))))
		cond = And(cond, ok)
	}
	if cond.isC {
		return cond.c != 0
	}
	return in.sol.CheckWith(Not(cond)) == "unsat"
}

// sprintf renders format with args; returns the string and the operands of %w verbs.
func (in *Interp) sprintf(format string, args []Value) (Str, []Iface) {
	out := Str{}
	var wrapped []Iface
	argi := 0
	i := 0
	for i < len(format) {
		j := strings.IndexByte(format[i:], '%')
		if j < 0 {
			out = strConcat(out, strOf(format[i:]))
			break
		}
		out = strConcat(out, strOf(format[i:i+j]))
		i += j + 1
		if i >= len(format) {
			out = strConcat(out, strOf("%!(NOVERB)"))
			break
		}
		// flags / width / precision
		k := i
		for k < len(format) && strings.IndexByte("+-# 0123456789.*[]", format[k]) >= 0 {
			k++
		}
		spec := format[i:k]
		if k >= len(format) {
			out = strConcat(out, strOf("%!(NOVERB)"))
			break
		}
		verb := format[k]
		i = k + 1
		if verb == '%' {
			out = strConcat(out, strOf("%"))
			continue
		}
		if strings.ContainsAny(spec, "*[]") {
			out = strConcat(out, in.opaque("%"+spec))
			argi++
			continue
		}
		if argi >= len(args) {
			out = strConcat(out, strOf("%!"+string(verb)+"(MISSING)"))
			continue
		}
		arg := args[argi]
		argi++
		if verb == 'w' {
			if ifc, ok := arg.(Iface); ok && ifc.t != nil && in.hasMethod(ifc.t, "Error") {
				wrapped = append(wrapped, ifc)
			}
			verb = 'v'
		}
		out = strConcat(out, in.renderArg(spec, verb, arg))
	}
	if argi < len(args) {
		out = strConcat(out, strOf("%!(EXTRA )"))
	}
	return out, wrapped
}

func (in *Interp) sprint(args []Value, ln bool) Str {
	out := Str{}
	prevString := false
	for i, a := range args {
		ifc, _ := a.(Iface)
		_, isStr := ifc.v.(Str)
		isStr = isStr && ifc.t != nil && !in.hasMethod(ifc.t, "String") && !in.hasMethod(ifc.t, "Error")
		if i > 0 && (ln || (!isStr && !prevString)) {
			out = strConcat(out, strOf(" "))
		}
		out = strConcat(out, in.renderArg("", 'v', a))
		prevString = isStr
	}
	if ln {
		out = strConcat(out, strOf("\n"))
	}
	return out
}

func (in *Interp) fmtType(name string) types.Type {
	pkg := in.prog.ImportedPackage("fmt")
	if pkg == nil {
		in.abort("fmt not loaded")
	}
	return pkg.Type(name).Type()
}

func (in *Interp) newError(msg Str) Iface {
	pkg := in.prog.ImportedPackage("errors")
	et := pkg.Type("errorString").Type()
	a := in.newAgg(1)
	a.e[0] = msg
	return Iface{t: types.NewPointer(et), v: Ptr{obj: in.newCell(a)}}
}

func (in *Interp) writeTo(w Value, s Str) Value {
	ifc, ok := w.(Iface)
	if !ok || ifc.t == nil {
		in.goPanicStr("nil io.Writer")
	}
	if s.opaque {
		in.abort("writing opaque string to io.Writer")
	}
	return in.callMethodByName(ifc, "Write", in.byteSlice(s.terms()))
}

func init() {
	reg("fmt.Sprintf", func(in *Interp, fn *ssa.Function, args []Value) Value {
		s, _ := in.sprintf(in.concStr(args[0]), in.anySlice(args[1]))
		return s
	})
	reg("fmt.Errorf", func(in *Interp, fn *ssa.Function, args []Value) Value {
		s, wrapped := in.sprintf(in.concStr(args[0]), in.anySlice(args[1]))
		switch len(wrapped) {
		case 0:
			return in.newFmtErr(s)
		case 1:
			wt := in.fmtType("wrapError")
			a := in.newAgg(2)
			a.e[0] = s
			a.e[1] = wrapped[0]
			return Iface{t: types.NewPointer(wt), v: Ptr{obj: in.newCell(a)}}
		default:
			wt := in.fmtType("wrapErrors")
			a := in.newAgg(2)
			a.e[0] = s
			es := in.newAgg(len(wrapped))
			for i, w := range wrapped {
				es.e[i] = w
			}
			a.e[1] = Slice{arr: es, len: len(wrapped), cap: len(wrapped)}
			return Iface{t: types.NewPointer(wt), v: Ptr{obj: in.newCell(a)}}
		}
	})
	reg("fmt.Sprint", func(in *Interp, fn *ssa.Function, args []Value) Value {
		return in.sprint(in.anySlice(args[0]), false)
	})
	reg("fmt.Sprintln", func(in *Interp, fn *ssa.Function, args []Value) Value {
		return in.sprint(in.anySlice(args[0]), true)
	})
	reg("fmt.Fprintf", func(in *Interp, fn *ssa.Function, args []Value) Value {
		s, _ := in.sprintf(in.concStr(args[1]), in.anySlice(args[2]))
		return in.writeTo(args[0], s)
	})
	reg("fmt.Fprint", func(in *Interp, fn *ssa.Function, args []Value) Value {
		return in.writeTo(args[0], in.sprint(in.anySlice(args[1]), false))
	})
	reg("fmt.Fprintln", func(in *Interp, fn *ssa.Function, args []Value) Value {
		return in.writeTo(args[0], in.sprint(in.anySlice(args[1]), true))
	})
	reg("fmt.Appendf", func(in *Interp, fn *ssa.Function, args []Value) Value {
		s, _ := in.sprintf(in.concStr(args[1]), in.anySlice(args[2]))
		if s.opaque {
			in.abort("fmt.Appendf of opaque rendering")
		}
		b := in.bytesOf(args[0])
		return in.byteSlice(append(append([]*Term{}, b...), s.terms()...))
	})
	printNop := func(in *Interp, fn *ssa.Function, args []Value) Value { return Tuple{CI(0), Iface{}} }
	reg("fmt.Printf", printNop)
	reg("fmt.Println", printNop)
	reg("fmt.Print", printNop)
}

// newFmtErr builds the error returned by fmt.Errorf without %w (an *fmt.wrapError-free *errors.errorString
// is observationally equivalent: Error() only).
func (in *Interp) newFmtErr(msg Str) Iface {
	return in.newError(msg)
}
