package main

// google.golang.org/protobuf/types/descriptorpb: the package initialiser first runs the plain variable
// initialisers (enum name/value maps such as FileOptions_OptimizeMode_value, raw descriptor bytes, goTypes) and
// then calls file_google_protobuf_descriptor_proto_init(), which registers the message types through
// protoimpl.TypeBuilder (reflection, unsafe) and cannot be interpreted. Registration is only needed for protobuf
// reflection, which the engine cannot run anyway (a path that reaches it aborts), so it is a no-op here; the
// generated structs, getters and the enum maps work. Added for C18 (bufconfig parses "SPEED"/"JS_STRING" override
// values through the enum value maps).
func init() {
	reg("google.golang.org/protobuf/types/descriptorpb.file_google_protobuf_descriptor_proto_init", nop)
}
