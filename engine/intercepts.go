package main

import (
	"fmt"
	"go/types"
	"sort"
	"strings"

	"golang.org/x/tools/go/ssa"
)

type interceptFn func(in *Interp, fn *ssa.Function, args []Value) Value

var interceptTable = map[string]interceptFn{}

// verifAPI functions are matched by bare name in any package.
var verifAPI = map[string]interceptFn{}

// packages whose initialisers are skipped (they only set up runtime/cpu feature state).
var skipInit = map[string]bool{
	"runtime": true, "internal/cpu": true, "internal/bytealg": true, "os": true, "syscall": true,
	"internal/poll": true, "internal/godebug": true, "time": true, "reflect": true, "internal/reflectlite": true,
	"internal/syscall/unix": true, "internal/testlog": true, "runtime/debug": true, "internal/abi": true,
	"sync": true, "sync/atomic": true, "internal/race": true, "log/slog": true, "log": true,
	"google.golang.org/protobuf/internal/impl": true, "google.golang.org/protobuf/internal/filedesc": true,
	"google.golang.org/protobuf/reflect/protoregistry": true,
	"crypto/sha256": true, "crypto/internal/fips140/sha256": true, "golang.org/x/crypto/sha3": true,
}

func reg(name string, f interceptFn) { interceptTable[name] = f }

func resolveIntercept(fn *ssa.Function) interceptFn {
	name := fn.String()
	if f, ok := interceptTable[name]; ok {
		return f
	}
	if o := fn.Origin(); o != nil {
		if f, ok := interceptTable[o.String()]; ok {
			return f
		}
	}
	// verif API: package-level function named verif*
	if fn.Signature.Recv() == nil && strings.HasPrefix(fn.Name(), "verif") {
		if f, ok := verifAPI[fn.Name()]; ok {
			return f
		}
	}
	return nil
}

func nop(in *Interp, fn *ssa.Function, args []Value) Value {
	res := fn.Signature.Results()
	switch res.Len() {
	case 0:
		return nil
	case 1:
		return in.zero(res.At(0).Type())
	}
	return in.zero(res)
}

func (in *Interp) ptrAgg(v Value) *Agg {
	p, ok := v.(Ptr)
	if !ok || p.obj == nil {
		in.goPanicStr("runtime error: invalid memory address or nil pointer dereference")
	}
	a, ok := p.obj.e[p.idx].(*Agg)
	if !ok {
		in.abort("pointer target is %T, struct expected", p.obj.e[p.idx])
	}
	return a
}

func termOf(v Value) *Term {
	t, _ := v.(*Term)
	return t
}

func init() {
	// ----- internal/bytealg (assembly) -> reference loops -----
	indexByte := func(in *Interp, fn *ssa.Function, args []Value) Value {
		bs := in.bytesOf(args[0])
		c := args[1].(*Term)
		for i, b := range bs {
			if in.decide(Eq(b, c)) {
				return CI(i)
			}
		}
		return CI(-1)
	}
	reg("internal/bytealg.IndexByte", indexByte)
	reg("internal/bytealg.IndexByteString", indexByte)
	lastIndexByte := func(in *Interp, fn *ssa.Function, args []Value) Value {
		bs := in.bytesOf(args[0])
		c := args[1].(*Term)
		for i := len(bs) - 1; i >= 0; i-- {
			if in.decide(Eq(bs[i], c)) {
				return CI(i)
			}
		}
		return CI(-1)
	}
	reg("internal/bytealg.LastIndexByte", lastIndexByte)
	reg("internal/bytealg.LastIndexByteString", lastIndexByte)
	count := func(in *Interp, fn *ssa.Function, args []Value) Value {
		bs := in.bytesOf(args[0])
		c := args[1].(*Term)
		// fork per byte: the callers (Split, Count-driven loops) decide the same equalities again anyway,
		// and a concrete count keeps 64-bit ite-sums out of the path condition
		n := 0
		for _, b := range bs {
			if in.decide(Eq(b, c)) {
				n++
			}
		}
		return CI(n)
	}
	reg("internal/bytealg.Count", count)
	reg("internal/bytealg.CountString", count)
	reg("internal/bytealg.Equal", func(in *Interp, fn *ssa.Function, args []Value) Value {
		a, b := in.bytesOf(args[0]), in.bytesOf(args[1])
		return in.strEq(Str{b: a}, Str{b: b})
	})
	reg("bytes.Equal", func(in *Interp, fn *ssa.Function, args []Value) Value {
		a, b := in.bytesOf(args[0]), in.bytesOf(args[1])
		if len(a) != len(b) {
			return tFalse
		}
		return in.strEq(strFromTermsNZ(a), strFromTermsNZ(b))
	})
	reg("internal/bytealg.Compare", func(in *Interp, fn *ssa.Function, args []Value) Value {
		a, b := strFromTermsNZ(in.bytesOf(args[0])), strFromTermsNZ(in.bytesOf(args[1]))
		if in.decide(in.strEq(a, b)) {
			return CI(0)
		}
		if in.decide(in.strLess(a, b)) {
			return CI(-1)
		}
		return CI(1)
	})
	reg("internal/bytealg.MakeNoZero", func(in *Interp, fn *ssa.Function, args []Value) Value {
		n := in.concInt(args[0])
		return in.makeSlice(types.Typ[types.Uint8], n, n)
	})
	idx := func(in *Interp, fn *ssa.Function, args []Value) Value {
		a, b := in.bytesOf(args[0]), in.bytesOf(args[1])
		for i := 0; i+len(b) <= len(a); i++ {
			if in.decide(in.strEq(strFromTermsNZ(a[i:i+len(b)]), strFromTermsNZ(b))) {
				return CI(i)
			}
		}
		return CI(-1)
	}
	reg("internal/bytealg.Index", idx)
	reg("internal/bytealg.IndexString", idx)
	reg("internal/abi.NoEscape", func(in *Interp, fn *ssa.Function, args []Value) Value { return args[0] })
	reg("internal/abi.Escape", func(in *Interp, fn *ssa.Function, args []Value) Value { return args[0] })
	reg("strings.(*Builder).copyCheck", nop)
	reg("(*strings.Builder).copyCheck", nop)
	reg("runtime.KeepAlive", nop)
	reg("runtime.SetFinalizer", nop)
	reg("runtime.GC", nop)
	reg("runtime.Gosched", func(in *Interp, fn *ssa.Function, args []Value) Value { in.yield(); return nil })
	reg("runtime.GOMAXPROCS", func(in *Interp, fn *ssa.Function, args []Value) Value { return CI(4) })
	reg("runtime.NumCPU", func(in *Interp, fn *ssa.Function, args []Value) Value { return CI(4) })
	reg("runtime.Callers", func(in *Interp, fn *ssa.Function, args []Value) Value { return CI(0) })
	reg("runtime.Caller", func(in *Interp, fn *ssa.Function, args []Value) Value {
		return Tuple{C(64, 0), strOf(""), CI(0), tFalse}
	})
	reg("runtime/debug.Stack", func(in *Interp, fn *ssa.Function, args []Value) Value { return in.byteSlice(nil) })
	reg("runtime.Stack", func(in *Interp, fn *ssa.Function, args []Value) Value { return CI(0) })
	reg("internal/godebug.(*Setting).Value", func(in *Interp, fn *ssa.Function, args []Value) Value { return strOf("") })
	reg("(*internal/godebug.Setting).Value", func(in *Interp, fn *ssa.Function, args []Value) Value { return strOf("") })
	reg("(*internal/godebug.Setting).IncNonDefault", nop)
	reg("internal/race.Enable", nop)
	reg("internal/race.Disable", nop)
	reg("internal/race.Acquire", nop)
	reg("internal/race.Release", nop)
	reg("internal/race.ReleaseMerge", nop)
	reg("internal/race.Read", nop)
	reg("internal/race.Write", nop)
	reg("internal/race.ReadRange", nop)
	reg("internal/race.WriteRange", nop)

	// ----- sync -----
	reg("(*sync.Mutex).Lock", func(in *Interp, fn *ssa.Function, args []Value) Value {
		a, i := mutexState(in.ptrAgg(args[0]))
		in.block(func() bool { return a.e[i].(*Term).c == 0 })
		in.setElem(a, i, lockedMark)
		return nil
	})
	reg("(*sync.Mutex).TryLock", func(in *Interp, fn *ssa.Function, args []Value) Value {
		a, i := mutexState(in.ptrAgg(args[0]))
		if a.e[i].(*Term).c == 0 {
			in.setElem(a, i, lockedMark)
			return tTrue
		}
		return tFalse
	})
	reg("(*sync.Mutex).Unlock", func(in *Interp, fn *ssa.Function, args []Value) Value {
		a, i := mutexState(in.ptrAgg(args[0]))
		if a.e[i].(*Term).c == 0 {
			in.goPanicStr("sync: unlock of unlocked mutex")
		}
		in.setElem(a, i, C(32, 0))
		return nil
	})
	// RWMutex{w Mutex; writerSem, readerSem uint32; readerCount, readerWait atomic.Int32}
	// model: writerSem (idx1) = writer held flag, readerSem (idx2) = number of readers
	reg("(*sync.RWMutex).Lock", func(in *Interp, fn *ssa.Function, args []Value) Value {
		a := in.ptrAgg(args[0])
		in.block(func() bool { return a.e[1].(*Term).c == 0 && a.e[2].(*Term).c == 0 })
		in.setElem(a, 1, C(32, 1))
		return nil
	})
	reg("(*sync.RWMutex).Unlock", func(in *Interp, fn *ssa.Function, args []Value) Value {
		a := in.ptrAgg(args[0])
		if a.e[1].(*Term).c == 0 {
			in.goPanicStr("sync: Unlock of unlocked RWMutex")
		}
		in.setElem(a, 1, C(32, 0))
		return nil
	})
	reg("(*sync.RWMutex).RLock", func(in *Interp, fn *ssa.Function, args []Value) Value {
		a := in.ptrAgg(args[0])
		in.block(func() bool { return a.e[1].(*Term).c == 0 })
		in.setElem(a, 2, C(32, a.e[2].(*Term).c+1))
		return nil
	})
	reg("(*sync.RWMutex).RUnlock", func(in *Interp, fn *ssa.Function, args []Value) Value {
		a := in.ptrAgg(args[0])
		if a.e[2].(*Term).c == 0 {
			in.goPanicStr("sync: RUnlock of unlocked RWMutex")
		}
		in.setElem(a, 2, C(32, a.e[2].(*Term).c-1))
		return nil
	})
	// WaitGroup{noCopy; state atomic.Uint64; sema uint32}: sema (idx 2) = counter
	wgAdd := func(in *Interp, a *Agg, d int64) {
		n := int64(a.e[2].(*Term).c) + d
		if n < 0 {
			in.goPanicStr("sync: negative WaitGroup counter")
		}
		in.setElem(a, 2, C(32, uint64(n)))
	}
	reg("(*sync.WaitGroup).Add", func(in *Interp, fn *ssa.Function, args []Value) Value {
		wgAdd(in, in.ptrAgg(args[0]), int64(in.concInt(args[1])))
		return nil
	})
	reg("(*sync.WaitGroup).Done", func(in *Interp, fn *ssa.Function, args []Value) Value {
		wgAdd(in, in.ptrAgg(args[0]), -1)
		return nil
	})
	reg("(*sync.WaitGroup).Wait", func(in *Interp, fn *ssa.Function, args []Value) Value {
		a := in.ptrAgg(args[0])
		in.block(func() bool { return a.e[2].(*Term).c == 0 })
		return nil
	})
	reg("(*sync.Pool).Get", func(in *Interp, fn *ssa.Function, args []Value) Value {
		a := in.ptrAgg(args[0])
		// last field: New func() any
		newf, _ := a.e[len(a.e)-1].(*Closure)
		if newf == nil {
			return Iface{}
		}
		return in.callClosure(newf, nil)
	})
	reg("(*sync.Pool).Put", nop)
	// sync.Once: the real SSA works on top of the atomic and Mutex models.

	// ----- sync/atomic -----
	for _, ty := range []string{"Int32", "Int64", "Uint32", "Uint64", "Uintptr", "Pointer"} {
		reg("sync/atomic.Load"+ty, func(in *Interp, fn *ssa.Function, args []Value) Value {
			return in.load(args[0].(Ptr))
		})
		reg("sync/atomic.Store"+ty, func(in *Interp, fn *ssa.Function, args []Value) Value {
			in.store(args[0].(Ptr), args[1])
			return nil
		})
		reg("sync/atomic.Swap"+ty, func(in *Interp, fn *ssa.Function, args []Value) Value {
			old := in.load(args[0].(Ptr))
			in.store(args[0].(Ptr), args[1])
			return old
		})
		reg("sync/atomic.CompareAndSwap"+ty, func(in *Interp, fn *ssa.Function, args []Value) Value {
			cur := in.load(args[0].(Ptr))
			if in.decide(in.valEq(cur, args[1])) {
				in.store(args[0].(Ptr), args[2])
				return tTrue
			}
			return tFalse
		})
		if ty != "Pointer" {
			reg("sync/atomic.Add"+ty, func(in *Interp, fn *ssa.Function, args []Value) Value {
				n := Bin("bvadd", in.load(args[0].(Ptr)).(*Term), args[1].(*Term))
				in.store(args[0].(Ptr), n)
				return n
			})
			reg("sync/atomic.And"+ty, func(in *Interp, fn *ssa.Function, args []Value) Value {
				old := in.load(args[0].(Ptr)).(*Term)
				in.store(args[0].(Ptr), Bin("bvand", old, args[1].(*Term)))
				return old
			})
			reg("sync/atomic.Or"+ty, func(in *Interp, fn *ssa.Function, args []Value) Value {
				old := in.load(args[0].(Ptr)).(*Term)
				in.store(args[0].(Ptr), Bin("bvor", old, args[1].(*Term)))
				return old
			})
		}
	}
	// atomic.Value{v any}
	reg("(*sync/atomic.Value).Load", func(in *Interp, fn *ssa.Function, args []Value) Value {
		return in.ptrAgg(args[0]).e[0]
	})
	reg("(*sync/atomic.Value).Store", func(in *Interp, fn *ssa.Function, args []Value) Value {
		in.setElem(in.ptrAgg(args[0]), 0, args[1])
		return nil
	})
	reg("(*sync/atomic.Value).Swap", func(in *Interp, fn *ssa.Function, args []Value) Value {
		a := in.ptrAgg(args[0])
		old := a.e[0]
		in.setElem(a, 0, args[1])
		return old
	})
	reg("(*sync/atomic.Value).CompareAndSwap", func(in *Interp, fn *ssa.Function, args []Value) Value {
		a := in.ptrAgg(args[0])
		if in.decide(in.valEq(a.e[0], args[1])) {
			in.setElem(a, 0, args[2])
			return tTrue
		}
		return tFalse
	})

	// ----- errors -----
	reg("errors.Is", func(in *Interp, fn *ssa.Function, args []Value) Value {
		return B(in.errorsIs(args[0].(Iface), args[1].(Iface)))
	})
	reg("errors.As", func(in *Interp, fn *ssa.Function, args []Value) Value {
		return B(in.errorsAs(args[0].(Iface), args[1].(Iface)))
	})

	// ----- sort (reflect-based swapper) -----
	sortSlice := func(in *Interp, fn *ssa.Function, args []Value) Value {
		ifc := args[0].(Iface)
		s, ok := ifc.v.(Slice)
		if !ok {
			in.abort("sort.Slice on %T", ifc.v)
		}
		less := args[1].(*Closure)
		// stable insertion sort calling the real less closure
		for i := 1; i < s.len; i++ {
			for j := i; j > 0; j-- {
				r := in.callClosure(less, []Value{CI(j), CI(j - 1)}).(*Term)
				if !in.decide(r) {
					break
				}
				a, b := s.arr.e[s.off+j], s.arr.e[s.off+j-1]
				in.setElem(s.arr, s.off+j, b)
				in.setElem(s.arr, s.off+j-1, a)
			}
		}
		return nil
	}
	reg("sort.Slice", sortSlice)
	reg("sort.SliceStable", sortSlice)
	reg("sort.SliceIsSorted", func(in *Interp, fn *ssa.Function, args []Value) Value {
		s := args[0].(Iface).v.(Slice)
		less := args[1].(*Closure)
		for i := s.len - 1; i > 0; i-- {
			if in.decide(in.callClosure(less, []Value{CI(i), CI(i - 1)}).(*Term)) {
				return tFalse
			}
		}
		return tTrue
	})

	// ----- logging: never the subject -----
	for _, m := range []string{"Debug", "Info", "Warn", "Error", "DebugContext", "InfoContext", "WarnContext", "ErrorContext", "Log", "LogAttrs"} {
		reg("(*log/slog.Logger)."+m, nop)
		reg("log/slog."+m, nop)
	}
	reg("(*log/slog.Logger).Enabled", func(in *Interp, fn *ssa.Function, args []Value) Value { return tFalse })
	reg("log.Printf", nop)
	reg("log.Println", nop)
	reg("log.Print", nop)

	// ----- os / environment -----
	reg("os.Getenv", func(in *Interp, fn *ssa.Function, args []Value) Value { return strOf("") })
	reg("os.LookupEnv", func(in *Interp, fn *ssa.Function, args []Value) Value { return Tuple{strOf(""), tFalse} })
	reg("os.Getwd", func(in *Interp, fn *ssa.Function, args []Value) Value { return Tuple{strOf("/w"), Iface{}} })
}

var lockedMark = C(32, 1)

// mutexState locates the int32 state word of a sync.Mutex (go1.23: Mutex{state,sema};
// go1.24: Mutex{_ noCopy; mu isync.Mutex{state,sema}}).
func mutexState(a *Agg) (*Agg, int) {
	if _, ok := a.e[0].(*Term); ok {
		return a, 0
	}
	for _, e := range a.e {
		if sub, ok := e.(*Agg); ok && len(sub.e) == 2 {
			if _, ok := sub.e[0].(*Term); ok {
				return sub, 0
			}
		}
	}
	panic(abortPath{"unrecognised sync.Mutex layout"})
}

func lockFree(v Value) bool {
	switch x := v.(type) {
	case *Term:
		return x.c == 0
	case *Agg: // go1.24: Mutex{_ noCopy; mu isync.Mutex}? handled by caller layout
		for _, e := range x.e {
			if t, ok := e.(*Term); ok && t.c != 0 {
				return false
			}
		}
		return true
	}
	return true
}

func (in *Interp) zeroLike(v Value) Value {
	if t, ok := v.(*Term); ok {
		return C(t.w, 0)
	}
	return v
}

func strFromTermsNZ(ts []*Term) Str {
	if len(ts) == 0 {
		return Str{}
	}
	return Str{b: ts}
}

// ---------- errors.Is / errors.As ----------

func (in *Interp) errUnwrap(err Iface) []Iface {
	if err.t == nil {
		return nil
	}
	ms := in.prog.MethodSets.MethodSet(err.t)
	for i := 0; i < ms.Len(); i++ {
		f := ms.At(i).Obj().(*types.Func)
		if f.Name() != "Unwrap" {
			continue
		}
		sig := f.Type().(*types.Signature)
		if sig.Params().Len() != 0 || sig.Results().Len() != 1 {
			return nil
		}
		res := in.call(in.prog.MethodValue(ms.At(i)), []Value{err.v}, nil)
		switch r := res.(type) {
		case Iface:
			if r.t == nil {
				return nil
			}
			return []Iface{r}
		case Slice:
			var out []Iface
			for k := 0; k < r.len; k++ {
				if e, ok := r.arr.e[r.off+k].(Iface); ok && e.t != nil {
					out = append(out, e)
				}
			}
			return out
		}
		return nil
	}
	return nil
}

func (in *Interp) errorsIs(err, target Iface) bool {
	if err.t == nil || target.t == nil {
		return err.t == nil && target.t == nil
	}
	if types.Identical(err.t, target.t) && types.Comparable(err.t) {
		if in.decide(in.valEq(err.v, target.v)) {
			return true
		}
	}
	// Is(error) bool method
	ms := in.prog.MethodSets.MethodSet(err.t)
	for i := 0; i < ms.Len(); i++ {
		f := ms.At(i).Obj().(*types.Func)
		if f.Name() == "Is" {
			sig := f.Type().(*types.Signature)
			if sig.Params().Len() == 1 && sig.Results().Len() == 1 && types.Identical(sig.Results().At(0).Type(), types.Typ[types.Bool]) {
				r := in.call(in.prog.MethodValue(ms.At(i)), []Value{err.v, target}, nil).(*Term)
				if in.decide(r) {
					return true
				}
			}
		}
	}
	for _, u := range in.errUnwrap(err) {
		if in.errorsIs(u, target) {
			return true
		}
	}
	return false
}

func (in *Interp) errorsAs(err Iface, target Iface) bool {
	if target.t == nil {
		in.goPanicStr("errors: target cannot be nil")
	}
	pt, ok := target.t.Underlying().(*types.Pointer)
	if !ok {
		in.goPanicStr("errors: target must be a non-nil pointer")
	}
	tp := target.v.(Ptr)
	et := pt.Elem()
	for err.t != nil {
		assignable := false
		if it, isI := et.Underlying().(*types.Interface); isI {
			assignable = types.Implements(err.t, it)
		} else {
			assignable = types.Identical(err.t, et)
		}
		if assignable {
			if _, isI := et.Underlying().(*types.Interface); isI {
				in.store(tp, err)
			} else {
				in.store(tp, err.v)
			}
			return true
		}
		// As(any) bool method
		ms := in.prog.MethodSets.MethodSet(err.t)
		for i := 0; i < ms.Len(); i++ {
			f := ms.At(i).Obj().(*types.Func)
			if f.Name() == "As" {
				sig := f.Type().(*types.Signature)
				if sig.Params().Len() == 1 && sig.Results().Len() == 1 {
					r := in.call(in.prog.MethodValue(ms.At(i)), []Value{err.v, target}, nil).(*Term)
					if in.decide(r) {
						return true
					}
				}
			}
		}
		us := in.errUnwrap(err)
		if len(us) == 0 {
			return false
		}
		if len(us) == 1 {
			err = us[0]
			continue
		}
		for _, u := range us {
			if in.errorsAs(u, target) {
				return true
			}
		}
		return false
	}
	return false
}

// sortedKeys is a small helper for deterministic evidence output.
func sortedKeys[V any](m map[string]V) []string {
	ks := make([]string, 0, len(m))
	for k := range m {
		ks = append(ks, k)
	}
	sort.Strings(ks)
	return ks
}

var _ = fmt.Sprint
