#!/opt/veriftools/pyvenv/bin/python
import json, jsonschema, glob, sys
jsonschema.validate(json.load(open('/verif/MANIFEST.json')), json.load(open('/root/.vp/MANIFEST.schema.json')))
print('manifest ok')
for f in sorted(glob.glob('/verif/evidence/*.json')):
    jsonschema.validate(json.load(open(f)), json.load(open('/root/.vp/EVIDENCE.schema.json')))
    print(f, 'ok')
