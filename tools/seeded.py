#!/usr/bin/env -S python3 -u
"""Run the registered checks against seeded breaking changes.

usage: seeded.py [--in-repo] [--tier quick|thorough] [seed-dir ...]   (default: every /verif/seeded/*/)

Default mode applies each patch in a throw-away git worktree of /repo (GOSYM_REPO) so /repo is never touched;
--in-repo applies it to /repo itself (git apply; git checkout -- . afterwards) as the task statement describes.
Writes /verif/seeded/RESULTS.json."""
import json, os, subprocess, sys, glob, re, shutil, time

def sh(cmd, **kw):
    return subprocess.run(cmd, shell=True, text=True, capture_output=True, **kw)

def main():
    args = sys.argv[1:]
    in_repo = '--in-repo' in args
    tier = 'quick'
    results_path = '/verif/seeded/RESULTS.json'
    if '--results' in args:
        results_path = args[args.index('--results') + 1]
    if '--tier' in args:
        tier = args[args.index('--tier') + 1]
    dirs = [a for a in args if not a.startswith('--') and a != tier and a != results_path and a != "-v"] or sorted(glob.glob('/verif/seeded/*/'))
    results = []
    for d in dirs:
        d = os.path.abspath(d.rstrip('/'))
        meta = json.load(open(os.path.join(d, 'meta.json')))
        prop = meta['property']
        patch = os.path.join(d, 'patch.diff')
        name = os.path.basename(d)
        t0 = time.time()
        if in_repo:
            root = '/repo'
            if sh('git -C /repo status --porcelain').stdout.strip():
                print('refusing: /repo is dirty'); sys.exit(2)
            r = sh(f'git -C /repo apply {patch}')
        else:
            root = f'/tmp/wt/seedrun_{name}'
            sh(f'git -C /repo worktree remove --force {root}')
            r = sh(f'git -C /repo worktree add --detach {root} HEAD')
            r = sh(f'git -C {root} apply {patch}')
        if r.returncode != 0:
            print(f'{name}: patch does not apply: {r.stderr.strip()}')
            results.append({'seed': name, 'property': prop, 'detected': None, 'note': 'patch does not apply'})
        else:
            env = dict(os.environ)
            if not in_repo:
                env['GOSYM_REPO'] = root
            extra = meta.get('check_args', '')
            c = subprocess.run(f'/verif/check {prop} --tier {tier} -no-evidence {extra}', shell=True, text=True, capture_output=True, env=env)
            out = c.stdout + c.stderr
            detected = c.returncode == 1 and 'VIOLATION property=' + prop in out
            by_prop = prop if detected else None
            # a change may live in code owned by another property's check (e.g. a storage defect seeded for the cache property)
            if not detected and meta.get('also_check'):
                p2 = meta['also_check']
                c2 = subprocess.run(f'/verif/check {p2} --tier {tier} -no-evidence', shell=True, text=True, capture_output=True, env=env)
                out2 = c2.stdout + c2.stderr
                if c2.returncode == 1 and 'VIOLATION property=' + p2 in out2:
                    detected, by_prop, out, c = True, p2, out2, c2
            lemmas = sorted(set(re.findall(r'counterexample lemma=(\S+)', out)))
            incon = sorted(set(re.findall(r'INCONCLUSIVE\S* lemma=(\S+)', out)))
            results.append({'seed': name, 'property': prop, 'detected': detected, 'detected_by_check': by_prop, 'caught_by': lemmas, 'inconclusive': incon,
                            'exit': c.returncode, 'wall_s': round(time.time() - t0, 1), 'summary': meta.get('summary', '')})
            print(f"{name}: property={prop} detected={detected} by={lemmas} inconclusive={incon} ({round(time.time()-t0,1)}s)")
            if not detected and '-v' in args:
                print(out[-3000:])
        if in_repo:
            sh('git -C /repo checkout -- . && git -C /repo clean -fdq')
        else:
            sh(f'git -C /repo worktree remove --force {root}')
    old = {}
    try:
        for r in json.load(open(results_path)):
            old[r['seed']] = r
    except Exception:
        pass
    for r in results:
        old[r['seed']] = r
    os.makedirs('/verif/seeded', exist_ok=True)
    json.dump(sorted(old.values(), key=lambda r: r['seed']), open(results_path, 'w'), indent=1)

main()
