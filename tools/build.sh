#!/bin/sh
# Build the gosym engine offline with the Go toolchain that /repo itself selects.
set -e
GOROOT_REPO=$(cd /repo && GOTOOLCHAIN=auto GOFLAGS=-mod=mod go env GOROOT)
export PATH="$GOROOT_REPO/bin:$PATH" GOROOT="$GOROOT_REPO" GOTOOLCHAIN=local GOFLAGS=-mod=mod GOPROXY=off
mkdir -p /verif/bin
cd /verif/engine && go build -o /verif/bin/gosym .
echo "built /verif/bin/gosym with $(go version)"
