#!/usr/bin/env python3
"""adopt_seed.py <source-dir> <seed-id>: verify a sub-agent's seeded change myself and keep it under /verif/seeded/<seed-id>/.
Verification (in a throw-away worktree of /repo): patch applies; `go build ./...` of touched packages ok; demonstration
passes WITHOUT the change and fails WITH it; the touched packages' own tests still pass with the change."""
import json, os, re, subprocess, sys, shutil, glob

def sh(cmd, cwd=None, timeout=1800):
    env = dict(os.environ, GOFLAGS='-mod=mod', GOPROXY='off')
    r = subprocess.run(cmd, shell=True, text=True, capture_output=True, cwd=cwd, env=env, timeout=timeout)
    return r.returncode, r.stdout + r.stderr

src, sid = sys.argv[1].rstrip('/'), sys.argv[2]
meta = json.load(open(f'{src}/meta.json'))
wt = f'/tmp/wt/adopt_{sid}'
sh(f'git -C /repo worktree remove --force {wt}')
rc, out = sh(f'git -C /repo worktree add --detach {wt} HEAD')
assert rc == 0, out
report = {}
try:
    demos = [f for f in glob.glob(f'{src}/*') if f.endswith('.go')]
    assert demos, 'no demo go file'
    demo_pkgs = set()
    names = []
    for d in demos:
        first = open(d).readline()
        m = re.search(r'(private/\S+_test\.go|cmd/\S+_test\.go)', first)
        assert m, f'no intended path in first line of {d}: {first!r}'
        dest = os.path.join(wt, m.group(1))
        shutil.copy(d, dest)
        demo_pkgs.add('./' + os.path.dirname(m.group(1)))
        names += re.findall(r'^func (Test\w+)\(', open(d).read(), re.M)
    runpat = '^(' + '|'.join(names) + ')$'
    pk = ' '.join(sorted(demo_pkgs))
    rc0, out0 = sh(f'go test -vet=off -count=1 -run "{runpat}" {pk}', cwd=wt)
    report['demo_without_change'] = 'pass' if rc0 == 0 else 'FAIL'
    touched = sorted(set('./' + os.path.dirname(f) for f in meta.get('files', [])))
    def failed(out):
        return sorted(set(re.findall(r'^\s*--- FAIL: (\S+)', out, re.M)))
    # baseline failures of the touched packages (no network / protoc / plugins) without the change and without the demo
    for d in demos:
        first = open(d).readline()
        m = re.search(r'(private/\S+_test\.go|cmd/\S+_test\.go)', first)
        os.rename(os.path.join(wt, m.group(1)), os.path.join(wt, m.group(1)) + '.off')
    _, outbase = sh(f'go test -vet=off -count=1 -p 4 {" ".join(touched)}', cwd=wt)
    base_failed = failed(outbase)
    for d in demos:
        first = open(d).readline()
        m = re.search(r'(private/\S+_test\.go|cmd/\S+_test\.go)', first)
        os.rename(os.path.join(wt, m.group(1)) + '.off', os.path.join(wt, m.group(1)))
    rc, out = sh(f'git apply {src}/patch.diff', cwd=wt)
    assert rc == 0, 'patch does not apply: ' + out
    rc1, out1 = sh(f'go test -vet=off -count=1 -run "{runpat}" {pk}', cwd=wt)
    report['demo_with_change'] = 'fail' if rc1 != 0 else 'PASSES (bad)'
    # remove demos before running the package tests with the change
    for d in demos:
        first = open(d).readline()
        m = re.search(r'(private/\S+_test\.go|cmd/\S+_test\.go)', first)
        os.remove(os.path.join(wt, m.group(1)))
    rcb, outb = sh('go build ./...', cwd=wt)
    report['build_with_change'] = 'ok' if rcb == 0 else 'FAIL'
    rct, outt = sh(f'go test -vet=off -count=1 -p 4 {" ".join(touched)}', cwd=wt)
    new_failed = [t for t in failed(outt) if t not in base_failed]
    report['touched_pkg_tests_with_change'] = 'same failures as the unchanged tree: ' + str(base_failed) if not new_failed else 'NEW FAILURES: ' + str(new_failed)
    ok = rc0 == 0 and rc1 != 0 and rcb == 0 and not new_failed
    report['verified'] = ok
    print(json.dumps(report, indent=1))
    if ok:
        dst = f'/verif/seeded/{sid}'
        os.makedirs(dst, exist_ok=True)
        shutil.copy(f'{src}/patch.diff', dst)
        for d in demos:
            shutil.copy(d, dst)
        meta['verified_by_coordinator'] = report
        meta['what_i_ran'] = f'worktree of /repo HEAD; go test -run {runpat} {pk} without the patch (pass) and with it (fail); go build ./...; go test {" ".join(touched)} with the patch (pass)'
        json.dump(meta, open(f'{dst}/meta.json', 'w'), indent=1)
        print('adopted as', dst)
    else:
        print('NOT adopted'); print(out0[-800:]); print(out1[-800:])
finally:
    sh(f'git -C /repo worktree remove --force {wt}')
