#!/usr/bin/env python3
"""Run the repository's pinned test suite (guard off) and compare with BASELINE.json stable_pass.
usage: baseline_check.py [pkg-pattern ...]   (default ./...)"""
import json, subprocess, sys, os
base = json.load(open('/root/.vp/BASELINE.json'))
stable = set(base['stable_pass'])
pats = sys.argv[1:] or ['./...']
env = dict(os.environ, GOFLAGS='-mod=mod', GOPROXY='off')
p = subprocess.Popen(['go', 'test', '-json', '-vet=off', '-count=1', '-timeout', '25m'] + pats, cwd='/repo', env=env, stdout=subprocess.PIPE, text=True)
res = {}
for line in p.stdout:
    try:
        ev = json.loads(line)
    except Exception:
        continue
    if ev.get('Test') and ev.get('Action') in ('pass', 'fail', 'skip'):
        res[ev['Package'] + '::' + ev['Test']] = ev['Action']
p.wait()
pkgs = set(k.split('::')[0] for k in res)
bad = [t for t in sorted(stable) if t.split('::')[0] in pkgs and res.get(t) != 'pass']
missing_pkgs = set(t.split('::')[0] for t in stable) - pkgs
print(f"ran {len(res)} tests in {len(pkgs)} packages; stable_pass tests in those packages not passing: {len(bad)}")
for t in bad[:50]:
    print('  NOT-PASS', t, res.get(t))
if pats == ['./...'] and missing_pkgs:
    print('packages with stable tests that did not run:', sorted(missing_pkgs)[:10])
sys.exit(1 if bad else 0)
