import subprocess, shutil, os, sys, json, re
# Harness-side sanity mutations for the C03/C04 lemmas (grpA): each entry flips one condition of a reference /
# assertion in a scratch copy of the verif root and expects a natively reproduced counterexample (CAUGHT).
# usage: python3 tools/mutate_c03_c04.py [lemma-substring ...]
ROOT='/tmp/verif_mutate_c03_c04/root'
H='harness/private/bufpkg/bufcheck/bufcheckserver/internal/bufcheckserverhandle/'
U='harness/private/bufpkg/bufcheck/bufcheckserver/internal/bufcheckserverutil/'
S='harness/private/bufpkg/bufcheck/bufcheckserver/'
M=[
 (H+'c03a.go','protoreflect.Uint64Kind, protoreflect.BoolKind:\n\t\treturn 100','protoreflect.Uint64Kind:\n\t\treturn 100','C03','C03-A.field-type-hierarchy','quick'),
 (H+'c03b.go','if wireOnly {\n\t\t\treturn 3\n\t\t}','if wireOnly {\n\t\t\treturn 4\n\t\t}','C03','C03-B.cardinality','quick'),
 (H+'c03c.go','changed := prev.name != cur.name\n\tif isExt {\n\t\tchanged = prev.full != cur.full\n\t}','changed := prev.name != cur.name\n\tif isExt {\n\t\tchanged = prev.name != cur.name\n\t}','C03','C03-C.field-name','quick'),
 (H+'c03c.go','if !isExt && prev.jsonName != cur.jsonName {','if prev.jsonName != cur.jsonName {','C03','C03-C.field-json-name','quick'),
 (H+'c03c.go','return t == 3 || t == 4 || t == 6 || t == 16 || t == 18','return t == 3 || t == 4 || t == 6 || t == 16','C03','C03-C.field-jstype','quick'),
 (H+'c03c.go','if !refBrkNameIn(prevNames[i], curNames) {\n\t\t\trenamed = true','if i == 0 && !refBrkNameIn(prevNames[i], curNames) {\n\t\t\trenamed = true','C03','C03-C.enum-value-same-name','quick'),
 (H+'c03d.go','if !refBrkInRanges(nums[i], ranges) {\n\t\t\twantNum++\n\t\t}\n\t\tif !refBrkNameIn(names[i], resNames) {','if !refBrkInRanges(nums[i]+1, ranges) {\n\t\t\twantNum++\n\t\t}\n\t\tif !refBrkNameIn(names[i], resNames) {','C03','C03-D.field-delete','quick'),
 (H+'c03d.go','if !refBrkNameIn(names[j], resNames) {\n\t\t\t\t\tallNamesReserved = false','if j == i && !refBrkNameIn(names[j], resNames) {\n\t\t\t\t\tallNamesReserved = false','C03','C03-D.enum-value-delete','quick'),
 (H+'c03e.go','if !refBrkNameIn(prevNames[i], curNames) && !synthetic[i] {','if !refBrkNameIn(prevNames[i], curNames) {','C03','C03-E.oneof-rpc','quick'),
 (H+'c03e.go','if !refBrkNameIn(prevPaths[i], curPaths) {\n\t\t\twant++','if i == 0 && !refBrkNameIn(prevPaths[i], curPaths) {\n\t\t\twant++','C03','C03-E.file-no-delete','quick'),
 (H+'c03e_pkg.go','if refBrkNameIn(prevPkgs[i], curPkgs) || refBrkNameIn(prevPkgs[i], prevPkgs[:i]) {','if refBrkNameIn(prevPkgs[i], curPkgs) {','C03','C03-E.package-no-delete','quick'),
 (H+'c03f.go','if rs[i][0] <= x && x <= rs[i][1] {','if rs[i][0] <= x && x < rs[i][1] {','C03','C03-F.collapse-ranges,C03-F.find-missing,C03-F.tag-range-kernel,C03-F.reserved-range-handlers','quick'),
 (H+'c03g.go','if ps == 1 {\n\t\t\tps = 2 // unspecified is proto2\n\t\t}','','C03','C03-G.file-options','quick'),
 (H+'c03g.go','if prevReq[i] && !curReq[i] {\n\t\t\twant++','if prevReq[i] && !curHas[i] {\n\t\t\twant++','C03','C03-G.message-rules','quick'),
 (U+'c03h.go','if prevKeys[i] == curKeys[j] {\n\t\t\t\twant = append(want, vbuCall{curEls[j], prevEls[i]})\n\t\t\t}\n\t\t}\n\t}\n\tif len(want) > 0 {\n\t\tverifCover("some pair matches")','if i == j && prevKeys[i] == curKeys[j] {\n\t\t\t\twant = append(want, vbuCall{curEls[j], prevEls[i]})\n\t\t\t}\n\t\t}\n\t}\n\tif len(want) > 0 {\n\t\tverifCover("some pair matches")','C03','C03-H.named-pairs','quick'),
 (U+'c03h.go','keys[i] = key{vbuLetter(), verifNondetInt(1, 536870911)}','keys[i] = key{vbuLetter(), verifNondetInt(1, 536870911)}\n\t\t\tif i == 1 {\n\t\t\t\tkeys[i].num = keys[0].num\n\t\t\t\tdefer func() { keys[1].num++ }()\n\t\t\t}','C03','C03-H.field-pairs','quick'),
 (U+'c03h.go','if prevNames[i] == curNames[j] {','if prevNames[i] != curNames[j] {','C03','C03-H.enum-value-method-pairs','quick'),
 (S+'c04d.go','{"PACKAGE_EXTENSION_NO_DELETE", "PACKAGE", 2}','{"PACKAGE_EXTENSION_NO_DELETE", "PACKAGE", 1}','C03','C03-I.rule-tables','quick'),
 (H+'c04a.go','prev, cur := vbBuildSchema(a, false), vbBuildSchema(a, false)','prev, cur := vbBuildSchema(a, false), vbBuildSchema(a, false)\n\tcur.method.sStream = !cur.method.sStream','C04','C04-A.identity','quick'),
 (H+'c04b.go','verifAssume(w >= curR[0].e)','verifAssume(w <= curR[0].e)\n\t\tverifAssume(w >= curR[0].s)','C04','C04-B.ranges-additive','quick'),
 (H+'c04c.go','verifAssert(handleBreakingFileSamePackage(fileRW, req, c, p) == nil, "FILE_SAME_PACKAGE returns no error")','','C04','C04-C.package-implies-file-package,C04-C.package-implies-file-enum','quick'),
 (S+'c04d.go','"FIELD_WIRE_JSON_COMPATIBLE_CARDINALITY":      {{"FIELD_SAME_CARDINALITY"}},','','C04','C04-D.category-tables','quick'),
 (H+'c03a.go','if pNames[i] == cNames[j] && pNums[i] == cNums[j] {','if pNames[i] == cNames[j] && (pNums[i] == cNums[j] || true) {','C03','C03-A.enum-type-change','quick'),
 (H+'c03e_pkg.go','if still || !pkgSurvives {','if still || (!pkgSurvives && false) {','C03','C03-E.package-enum-no-delete,C03-E.package-service-no-delete','quick'),
 (H+'c04a.go','verifAssume(a.addFClass != 3) // not required','','C04','C04-B.additive','quick'),
 (S+'c03i_spec.go','{"rpc request type", func(s *vbsSchema) { s.method.in = "i2" }, []string{"RPC_SAME_REQUEST_TYPE"}},','{"rpc request type", func(s *vbsSchema) { s.method.in = "i2" }, []string{"RPC_SAME_RESPONSE_TYPE"}},','C03','C03-I.spec-scenarios','quick'),
 (S+'c03i_spec.go','{"close enum", func(s *vbsSchema) { s.enum.closed = true }, []string{"ENUM_SAME_TYPE"}},','','C03','C03-I.scenario-coverage','quick'),
 (H+'c03j.go','return false, uint64(uint32(x))','return false, uint64(uint32(x)) &^ 1','C03','C03-J.integer-defaults','quick'),
 (H+'c03c.go','f := &vField{number: 1, name: "f", proto3Optional: verifNondetBool()}\n\t\tswitch verifNondetChoice(3) {\n\t\tcase 0:\n\t\t\treturn f, false, ""','f := &vField{number: 1, name: "f", proto3Optional: verifNondetBool()}\n\t\tswitch verifNondetChoice(3) {\n\t\tcase 0:\n\t\t\treturn f, f.proto3Optional, ""','C03','C03-C.field-oneof','quick'),
 (H+'c03e.go','\t\twant++\n\t\tverifCover("an element was deleted")','\t\tif i == 0 {\n\t\t\twant++\n\t\t}\n\t\tverifCover("an element was deleted")','C03','C03-E.file-elements','quick'),
 (H+'c03e.go','verifAssert(rw.n >= want && rw.vbInFile("a.proto"), "every deleted element is reported in the current file")','verifAssert(rw.n >= want && rw.vbInFile("b.proto"), "every deleted element is reported in the current file")','C03','C03-E.file-elements','quick'),
 (H+'c03e_pkg.go','if still || !pkgSurvives {','if still || (!pkgSurvives && false) {','C03','C03-E.package-message-no-delete','quick'),
 (H+'c03e_pkg.go','verifAssert(rw.vbInFile(sameFile.path), "element deleted from a surviving file is reported in that file")','verifAssert(rw.vbInFile(sameFile.path+"x"), "element deleted from a surviving file is reported in that file")','C03','C03-E.package-extension-no-delete','quick'),
 (H+'c03g.go','changed := []bool{prev.in != cur.in, prev.out != cur.out,','changed := []bool{prev.out != cur.out, prev.in != cur.in,','C03','C03-G.rpc','quick'),
 (H+'c03g.go','if prev.closed != cur.closed {\n\t\tverifCover("enum changed between open and closed")','if prev.closed == cur.closed {\n\t\tverifCover("enum changed between open and closed")','C03','C03-G.enum-same-type','quick'),
 (S+'c03i_spec.go','}, []string{"FIELD_SAME_TYPE", "FIELD_WIRE_JSON_COMPATIBLE_TYPE"}},','}, []string{"FIELD_SAME_TYPE", "FIELD_WIRE_COMPATIBLE_TYPE"}},','C03','C03-I.spec-scenarios','quick'),
 (S+'c03i_spec.go','\t\ts.q.oneof.name = "X_q"\n','\t\ts.q.oneof.name = "X_q"\n\t\ts.q.jsonName = "qq"\n','C03','C03-I.spec-scenarios','quick'),
 (U+'c03h.go','if prevNames[i] == curNames[j] {','if prevNames[i] == curNames[j] && i == 0 {','C03','C03-H.enum-value-method-pairs','quick'),
]
def reset():
    if os.path.exists(ROOT): shutil.rmtree(ROOT)
    os.makedirs(ROOT+'/engine')
    for d in ['harness','lemmas','known_findings.json']:
        src='/verif/'+d
        (shutil.copytree if os.path.isdir(src) else shutil.copy)(src, ROOT+'/'+d)
    shutil.copytree('/verif/engine/rt', ROOT+'/engine/rt')
only = sys.argv[1:] 
for (f,old,new,prop,lem,tier) in M:
    if only and not any(o in lem for o in only): continue
    reset()
    p=ROOT+'/'+f
    s=open(p).read()
    if old not in s:
        # gofmt may have re-aligned: try whitespace-insensitive
        pat=re.sub(r'\s+', r'\\s+', re.escape(old)).replace('\\\\s+','\\s+')
        m=re.search(re.sub(r'(\\ |\\\t|\\\n)+', r'\\s+', re.escape(old)), s)
        if not m:
            print('MUTATION NOT APPLICABLE', f, lem); continue
        s=s[:m.start()]+new+s[m.end():]
    else:
        s=s.replace(old,new,1)
    open(p,'w').write(s)
    r=subprocess.run(['timeout','900','/verif/bin/gosym','check','-verif',ROOT,'-property',prop,'-tier',tier,'-lemma',lem,'-workers','6','-no-evidence'],capture_output=True,text=True)
    out=r.stdout+r.stderr
    res=[]
    for L in lem.split(','):
        line=[x for x in out.splitlines() if x.startswith('lemma '+L+' ')]
        st=line[0].split()[2] if line else 'NO-RESULT'
        rep='reproduced natively' in out
        res.append('%s=%s'%(L,st))
    print(('CAUGHT ' if ('COUNTEREXAMPLE' in out and 'reproduced natively' in out and 'VIOLATION' in out) else 'MISSED ')+' '.join(res), flush=True)
    if 'INCONCLUSIVE' in out or 'NO-RESULT' in ' '.join(res):
        print(out[-1500:])
