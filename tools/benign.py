#!/usr/bin/env -S python3 -u
"""Run the registered checks against property-PRESERVING changes (false-alarm test).
usage: benign.py [--results file] <benign-dir> ...   each dir has patch.diff + meta.json {"properties": [...]}
A VIOLATION line / exit 1 on such a change is a false alarm of the check (or the change is not benign after all:
triage by reading the counterexample)."""
import json, os, subprocess, sys, re, time, glob

def sh(cmd, **kw):
    return subprocess.run(cmd, shell=True, text=True, capture_output=True, **kw)

args = sys.argv[1:]
results_path = '/verif/benign/RESULTS.json'
if '--results' in args:
    results_path = args[args.index('--results') + 1]
dirs = [a for a in args if not a.startswith('--') and a != results_path] or sorted(glob.glob('/verif/benign/*/'))
results = []
for d in dirs:
    d = os.path.abspath(d.rstrip('/'))
    meta = json.load(open(os.path.join(d, 'meta.json')))
    name = os.path.basename(os.path.dirname(d)) + '-' + os.path.basename(d) if not os.path.basename(d).startswith('G') else os.path.basename(d)
    name = meta.get('id', name)
    root = f'/tmp/wt/benrun_{name}'
    sh(f'git -C /repo worktree remove --force {root}')
    sh(f'git -C /repo worktree add --detach {root} HEAD')
    r = sh(f'git -C {root} apply {d}/patch.diff')
    if r.returncode != 0:
        print(f'{name}: patch does not apply: {r.stderr.strip()[:200]}')
        results.append({'change': name, 'applies': False})
        sh(f'git -C /repo worktree remove --force {root}')
        continue
    for prop in meta['properties']:
        t0 = time.time()
        env = dict(os.environ, GOSYM_REPO=root)
        c = subprocess.run(f'/verif/check {prop} --tier quick -no-evidence', shell=True, text=True, capture_output=True, env=env)
        out = c.stdout + c.stderr
        alarm = c.returncode != 0 or 'VIOLATION property=' in out
        lemmas = sorted(set(re.findall(r'counterexample lemma=(\S+)', out)))
        incon = sorted(set(re.findall(r'INCONCLUSIVE\S* lemma=(\S+)', out)))
        incomplete = sorted(set(re.findall(r'lemma (\S+)\s+incomplete', out)))
        results.append({'change': name, 'property': prop, 'alarm': alarm, 'lemmas': lemmas, 'inconclusive': incon, 'incomplete': incomplete,
                        'exit': c.returncode, 'wall_s': round(time.time() - t0, 1), 'summary': meta.get('summary', '')[:200]})
        print(f"{name}: property={prop} alarm={alarm} lemmas={lemmas} inconclusive={incon} incomplete={incomplete} ({round(time.time()-t0,1)}s)")
        if alarm:
            for line in out.split('\n'):
                if 'counterexample' in line or 'VIOLATION' in line:
                    print('    ' + line[:300])
    sh(f'git -C /repo worktree remove --force {root}')
old = {}
try:
    for r in json.load(open(results_path)):
        old[(r['change'], r.get('property'))] = r
except Exception:
    pass
for r in results:
    old[(r['change'], r.get('property'))] = r
os.makedirs(os.path.dirname(results_path), exist_ok=True)
json.dump(sorted(old.values(), key=lambda r: (r['change'], r.get('property') or '')), open(results_path, 'w'), indent=1)
