#!/usr/bin/env python3
"""Regenerate /verif/MANIFEST.json from lemmas/*.json and tools/properties_meta.json."""
import json, glob, os
root = '/verif'
meta = json.load(open(f'{root}/tools/properties_meta.json'))
lemmas = []
for f in sorted(glob.glob(f'{root}/lemmas/*.json')):
    lemmas += json.load(open(f))
props = sorted(set(l['property'] for l in lemmas if not l.get('disabled')))
checks = []
for p in props:
    m = meta.get(p, {})
    ls = [l for l in lemmas if l['property'] == p and not l.get('disabled')]
    checks.append({
        "property_id": p,
        "quick_cmd": f"/verif/check {p} --tier quick",
        "thorough_cmd": f"/verif/check {p} --tier thorough",
        "evidence_file": f"/verif/evidence/{p}.json",
        "replay_cmd_template": "/verif/check --replay {path}",
        "engine": "gosym",
        "level_claimed": {"category": "other",
                          "text": m.get("text", "bounded symbolic execution of the real Go code with SMT-decided branches and assertions; lemmas: " + ", ".join(l['id'] for l in ls)),
                          "design_ref": f"DESIGN.md §3 {p}"},
        "level_note": m.get("note", ""),
        "technique": "bounded symbolic execution of go/ssa of the real code, path forking, z3 (QF_BV) decides every branch and assertion; counterexamples replayed natively",
    })
na = [{"property_id": k, "reason": v["not_applicable"]} for k, v in sorted(meta.items()) if "not_applicable" in v and k not in props]
man = {
 "version": 1,
 "setup_cmd": "/verif/tools/build.sh",
 "hooks": {"guard": "verif",
           "enable": "no source hooks: harness files (//go:build verif) are overlaid at check time via go/packages Overlay and go test -overlay -tags verif; /repo is never written",
           "baseline_off_cmd": "cd /repo && go test -mod=mod -vet=off -count=1 -timeout 25m ./...",
           "source_commits": [], "add_only": True},
 "engines": [{"name": "gosym", "path": "/verif/engine", "serves_properties": props,
              "kind_free_text": "bounded symbolic executor for go/ssa (x/tools v0.29.0) with z3 4.8.12 over a pipe; stateless path forking; native replay of counterexamples"}],
 "checks": checks,
 "not_applicable": na,
 "notes": "Bounded symbolic execution of the real Go code (engine: /verif/engine, lemmas: /verif/lemmas/*.json, harnesses: /verif/harness/, catalogue: /verif/LEMMAS.md). Genuine defects found by the checks were repaired in /repo with separate fix: commits or recorded as known findings (/verif/known_findings.json; DESIGN.md 9.2). Independent seeded breaking changes: /verif/seeded (tools/seeded.py); property-preserving changes for false-alarm testing: /verif/benign (tools/benign.py). Translator validation: gosym conform."
}
json.dump(man, open(f'{root}/MANIFEST.json', 'w'), indent=1)
print("checks:", props, "not_applicable:", [x['property_id'] for x in na])
