#!/usr/bin/env python3
"""Regenerate the generated tables of DESIGN.md (between <!-- BEGIN/END GENERATED:x --> markers) from
known_findings.json, seeded/RESULTS.json + seeded/*/meta.json and lemmas/*.json."""
import json, glob, os, re
root='/verif'
def table_findings():
    k=json.load(open(f'{root}/known_findings.json'))
    out=['| id | property | lemma | status | what |','|---|---|---|---|---|']
    for x in k:
        st = x['status'] + (' ('+x['commit']+')' if x.get('commit') else '')
        what = x['what']
        what = re.sub(r'^fixed: property=\S+ \S+ ', '', what)
        out.append(f"| {x['id']} | {x['property']} | {x.get('lemma','')} | {st} | {what} |")
    return '\n'.join(out)
def table_seeded():
    res={}
    try:
        for r in json.load(open(f'{root}/seeded/RESULTS.json')): res[r['seed']]=r
    except Exception: pass
    out=['| seed | property | change (what it needs to manifest) | detected | caught by |','|---|---|---|---|---|']
    for d in sorted(glob.glob(f'{root}/seeded/*/')):
        name=os.path.basename(d.rstrip('/'))
        try: m=json.load(open(d+'meta.json'))
        except Exception: continue
        r=res.get(name,{})
        det={True:'yes',False:'**no**',None:'n/a'}.get(r.get('detected'),'not run')
        summ=(m.get('summary','')[:230]).replace('|','/').replace('\n',' ')
        note=m.get('coverage_note','')
        by=', '.join(r.get('caught_by',[])) or note
        out.append(f"| {name} | {m['property']} | {summ} | {det} | {by} |")
    return '\n'.join(out)
def table_benign():
    try: res=json.load(open(f'{root}/benign/RESULTS.json'))
    except Exception: res=[]
    by={}
    for r in res: by.setdefault(r['change'],[]).append(r)
    out=['| change | properties checked | what it changes (property preserved) | alarm | lemmas left inconclusive by the refactor |','|---|---|---|---|---|']
    for d in sorted(glob.glob(f'{root}/benign/*/')):
        name=os.path.basename(d.rstrip('/'))
        try: m=json.load(open(d+'meta.json'))
        except Exception: continue
        rs=by.get(name,[])
        alarm='**yes**' if any(r.get('alarm') for r in rs) else ('no' if rs else 'not run')
        inc=sorted(set(sum([r.get('incomplete',[]) for r in rs],[])))
        summ=(m.get('summary','')[:200]).replace('|','/').replace('\n',' ')
        out.append(f"| {name} | {', '.join(m.get('properties',[]))} | {summ} | {alarm} | {', '.join(inc)} |")
    return '\n'.join(out)
def table_lemmas():
    out=['| property | lemmas (quick tier unless marked) |','|---|---|']
    by={}
    for f in sorted(glob.glob(f'{root}/lemmas/*.json')):
        for l in json.load(open(f)):
            if l.get('disabled'): continue
            tag = l['id'] + ('' if l.get('quick') else ' (thorough only)')
            by.setdefault(l['property'],[]).append(tag)
    for p in sorted(by): out.append(f"| {p} | {', '.join(by[p])} |")
    return '\n'.join(out)
s=open(f'{root}/DESIGN.md').read()
for name,fn in [('findings',table_findings),('seeded',table_seeded),('lemmas',table_lemmas),('benign',table_benign)]:
    b=f'<!-- BEGIN GENERATED:{name} -->'; e=f'<!-- END GENERATED:{name} -->'
    if b in s:
        s=s[:s.index(b)+len(b)]+'\n'+fn()+'\n'+s[s.index(e):]
open(f'{root}/DESIGN.md','w').write(s)
# full per-lemma catalogue
out=['# Lemma catalogue (generated from lemmas/*.json by tools/gen_design_tables.py)','',
     'One lemma = one harness entry point (`entry`) in the package directory `dir`, decided by bounded symbolic execution of the real code.',
     'Parameters are the tier bounds read with `verifParam`; `stubs` are the assumptions that are part of the claim.','']
for f in sorted(glob.glob(f'{root}/lemmas/*.json')):
    ls=json.load(open(f))
    if not ls: continue
    out.append(f"## {ls[0]['property']}")
    for l in ls:
        if l.get('disabled'): continue
        q=(l.get('quick') or {}).get('params'); t=(l.get('thorough') or {}).get('params')
        out.append(f"- **{l['id']}** (`{l['dir']}` · `{l['entry']}`): {l.get('doc','')}")
        out.append(f"  - bounds: {l.get('bounds','')}")
        out.append(f"  - quick params: {json.dumps(q) if q is not None else 'not in quick tier'}; thorough params: {json.dumps(t) if t is not None else 'same as quick'}")
        if l.get('opts'): out.append(f"  - options: {json.dumps(l['opts'])}")
        if l.get('stubs'): out.append('  - stubs/assumptions: ' + '; '.join(l['stubs']))
    out.append('')
open(f'{root}/LEMMAS.md','w').write('\n'.join(out))
print('tables regenerated')
